#!/usr/bin/env python3
"""Regenerates MANIFEST.json from sim/registry.py (single source of budgets/levels)."""
import json, os, sys
sys.path.insert(0, os.path.dirname(os.path.abspath(__file__)))
from sim.registry import PROPS
from sim.manifest_text import TEXT, NOT_APPLICABLE, PENDING

checks = []
for pid in sorted(PROPS):
    t = TEXT[pid]
    checks.append({
        "property_id": pid,
        "quick_cmd": f"./check {pid} --tier quick",
        "thorough_cmd": f"./check {pid} --tier thorough",
        "evidence_file": f"evidence/{pid}.json",
        "replay_cmd_template": f"./check {pid} --replay {{path}}",
        "engine": "sim",
        "level_claimed": {"category": PROPS[pid]["level"], "text": t["level_text"],
                          "design_ref": t["design_ref"]},
        "level_note": t["level_note"],
        "technique": t["technique"],
    })
na = [{"property_id": k, "reason": v} for k, v in sorted(NOT_APPLICABLE.items())]
na += [{"property_id": k, "reason": v} for k, v in sorted(PENDING.items()) if k not in PROPS]
na.sort(key=lambda e: e["property_id"])
m = {
    "version": 1,
    "setup_cmd": "./setup.sh",
    "hooks": {"guard": "SCINUMTOOLS_VERIF", "enable": "no hooks: every seam the simulator needs "
              "(atom type, units dict, module-level open, DIP callbacks, DIP name) already exists "
              "in the shipped code; the guard name is reserved only",
              "baseline_off_cmd": "cd /repo && /venv/bin/python -m pytest -ra -q -p no:cacheprovider "
              "--timeout=900 --continue-on-collection-errors",
              "source_commits": [], "add_only": True},
    "engines": [{"name": "sim", "path": "sim/", "serves_properties": sorted(PROPS),
                 "kind_free_text": "single-process deterministic simulator: seeded histories of API "
                 "operations on live library objects with injected failures at the code's own seams, "
                 "reference-model oracles after every step, ddmin-minimised replayable traces"}],
    "checks": checks,
    "not_applicable": na,
    "notes": "Exit 0 held / 1 VIOLATION / 2 harness error. See DESIGN.md. known_findings.json lists "
             "fixed and known findings; fixed entries are replayed on every run.",
}
json.dump(m, open(os.path.join(os.path.dirname(os.path.abspath(__file__)), "MANIFEST.json"), "w"), indent=1)
print("wrote MANIFEST.json with", len(checks), "checks,", len(na), "not_applicable")
