"""Snapshot / compare / restore of the process-global unit tables.

Comparison reads the tables through their public interface (keys(), [], len(),
items(), row attributes).  Restoring writes private fields, but only ever to
put the *import-time* content back between runs so that a leak provoked by one
run cannot change the next run in the same worker.
"""
import copy

from scinumtools.units import settings as S

FIELDS = ("magnitude", "dimensions", "definition", "name", "prefixes")


def _row(r):
    out = []
    for f in FIELDS:
        v = getattr(r, f, None)
        if isinstance(v, list):
            v = list(v)
        out.append(v)
    return tuple(out)


def _table(t):
    keys = list(t.keys())
    rows = [(k, _row(t[k])) for k in keys]
    return rows


def snapshot():
    """Ordered, value-level picture of the three tables."""
    return {
        "standard": _table(S.UNIT_STANDARD),
        "standard_len": len(S.UNIT_STANDARD),
        "standard_items": [k for k, _ in S.UNIT_STANDARD.items()],
        "prefixes": _table(S.UNIT_PREFIXES),
        "prefixes_len": len(S.UNIT_PREFIXES),
        "types": list(S.UNIT_TYPES),
    }


def _eq(a, b):
    try:
        r = a == b
        if isinstance(r, bool):
            return r
        return bool(r)
    except Exception:
        return a is b


def diff(a, b):
    """Human-readable differences between two snapshots ([] when identical)."""
    out = []
    for tab in ("standard", "prefixes"):
        ka = [k for k, _ in a[tab]]
        kb = [k for k, _ in b[tab]]
        if ka != kb:
            extra = [k for k in kb if k not in ka]
            missing = [k for k in ka if k not in kb]
            if extra:
                out.append(f"{tab}: extra symbols {extra}")
            if missing:
                out.append(f"{tab}: missing symbols {missing}")
            if not extra and not missing:
                out.append(f"{tab}: order of symbols changed")
        da = dict(a[tab])
        for k, row in b[tab]:
            if k in da and not _eq(da[k], row):
                out.append(f"{tab}: row {k!r} changed {da[k]!r} -> {row!r}")
    if a["standard_len"] != b["standard_len"]:
        out.append(f"standard: len {a['standard_len']} -> {b['standard_len']}")
    if a["standard_items"] != b["standard_items"]:
        out.append("standard: items() keys differ from before")
    if b["standard_items"] != [k for k, _ in b["standard"]]:
        out.append("standard: keys() and items() disagree")
    if a["prefixes_len"] != b["prefixes_len"]:
        out.append(f"prefixes: len {a['prefixes_len']} -> {b['prefixes_len']}")
    ta, tb = a["types"], b["types"]
    if len(ta) != len(tb) or any(x is not y for x, y in zip(ta, tb)):
        out.append(f"types: {[t.__name__ for t in ta]} -> {[t.__name__ for t in tb]}")
    return out


class Baseline:
    """Import-time content, kept once per process."""

    def __init__(self):
        self.snap = snapshot()
        self._std_keys = list(S.UNIT_STANDARD._keys)
        self._std_data = dict(S.UNIT_STANDARD._data)
        self._std_rows = {k: copy.deepcopy(_row(v)) for k, v in self._std_data.items()}
        self._pre_keys = list(S.UNIT_PREFIXES._keys)
        self._pre_data = dict(S.UNIT_PREFIXES._data)
        self._types = list(S.UNIT_TYPES)
        self.restores = 0

    def restore(self):
        """Put the import-time content back.  Returns True when something had to
        be repaired (a leak from the previous run)."""
        dirty = bool(diff(self.snap, snapshot()))
        if dirty:
            self.restores += 1
            S.UNIT_STANDARD._keys[:] = self._std_keys
            S.UNIT_STANDARD._data.clear()
            S.UNIT_STANDARD._data.update(self._std_data)
            for k, v in self._std_data.items():
                for f, val in zip(FIELDS, self._std_rows[k]):
                    setattr(v, f, copy.deepcopy(val) if isinstance(val, list) else val)
            S.UNIT_PREFIXES._keys[:] = self._pre_keys
            S.UNIT_PREFIXES._data.clear()
            S.UNIT_PREFIXES._data.update(self._pre_data)
            S.UNIT_TYPES[:] = self._types
        return dirty


_BASE = None


def baseline():
    global _BASE
    if _BASE is None:
        _BASE = Baseline()
    return _BASE
