"""Independent model of linear units: a unit is a list of terms
(prefix, symbol, exponent) and its factor / dimension vector are computed
directly from the published table rows — never through the unit parser."""
from fractions import Fraction as F

from scinumtools.units import settings as S
from scinumtools.units.unit_list import QUANTITY_UNITS

# symbols whose conversion is not "linear, non-offset" (the statement of C04 excludes
# them) or whose factor is not a plain table number
LOG_SYMBOLS = {"Np", "B", "Bm", "BmW", "BW", "BV", "BuV", "BA", "BuA", "BOhm", "BSPL", "BSIL",
               "BSWL", "PR", "AR"}
OFFSET_SYMBOLS = {"Cel", "degF"}
EXCLUDED = LOG_SYMBOLS | OFFSET_SYMBOLS | {"degR"}


def _frac(x):
    if isinstance(x, tuple):
        return F(x[0], x[1])
    return F(x)


def row(symbol):
    if symbol.startswith("#"):
        mag, dims = QUANTITY_UNITS[symbol]
        return float(mag), [_frac(d) for d in dims], False
    r = S.UNIT_STANDARD[symbol]
    return float(r.magnitude), [_frac(d) for d in r.dimensions], r.prefixes


def admissible_prefixes(symbol):
    if symbol.startswith("#"):
        return []
    p = S.UNIT_STANDARD[symbol].prefixes
    if p is True:
        return list(S.UNIT_PREFIXES.keys())
    if isinstance(p, list):
        return list(p)
    return []


def prefix_factor(prefix):
    return float(S.UNIT_PREFIXES[prefix].magnitude) if prefix else 1.0


def term_factor(prefix, symbol, num, den):
    mag, _, _ = row(symbol)
    return (prefix_factor(prefix) * mag) ** (num / den)


def factor(terms):
    f = 1.0
    try:
        for prefix, symbol, num, den in terms:
            f *= term_factor(prefix, symbol, num, den)
    except (OverflowError, ZeroDivisionError):
        return float("inf")
    return f


def dims(terms):
    total = [F(0)] * 8
    for prefix, symbol, num, den in terms:
        _, d, _ = row(symbol)
        e = F(num, den)
        total = [a + b * e for a, b in zip(total, d)]
    return tuple(total)


def exp_text(num, den, negden=False):
    if den == 1:
        return "" if num == 1 else str(num)
    if negden and num < 0:
        return f"{-num}:{-den}"         # the sign written on the denominator: s1:-2
    return f"{num}:{den}"


def text(terms, style=0, negden=False):
    """Render terms as a unit expression.  style 0: product with signed exponents;
    style 1: numerator / denominator (parenthesised when several)."""
    if not terms:
        return None
    if style == 0:
        return "*".join(f"{p}{s}{exp_text(n, d, negden)}" for p, s, n, d in terms)
    num = [(p, s, n, d) for p, s, n, d in terms if n > 0]
    den = [(p, s, -n, d) for p, s, n, d in terms if n < 0]
    if not den or not num:
        return text(terms, 0)
    top = "*".join(f"{p}{s}{exp_text(n, d)}" for p, s, n, d in num)
    bot = "*".join(f"{p}{s}{exp_text(n, d)}" for p, s, n, d in den)
    if len(den) > 1:
        bot = f"({bot})"
    return f"{top}/{bot}"


def linear_symbols():
    """Table symbols usable as linear, non-offset units (constants included)."""
    return [s for s in S.UNIT_STANDARD.keys() if s not in EXCLUDED]


def is_nodim(d):
    return all(x == 0 for x in d)
