"""C02 — a solver instance is unaffected by what it solved before.

Long-lived ExpressionSolver instances (one per configuration named in the
property) are driven through a seeded history of solve() calls.  Calls may fail
at any token position: by a text fault (unknown atom, unbalanced parenthesis,
missing operand, wrong arity, doubled operator) or by an injected fault in the
atom seam (constructor / arithmetic / comparison / function raising at the n-th
event, Exception subclasses and KeyboardInterrupt).

Oracle: the same (expression, fault) given to a *fresh* instance of the same
configuration yields the same value (repr) or the same exception type and
arguments.  By the property the history must not matter, so the fresh instance
is the reference model.
"""
import os
import re

import numpy as np

from .core import Machine, Violation

from scinumtools.solver import (  # noqa: E402  (bootstrap has run)
    ExpressionSolver, AtomBase, Otype, OperatorBase,
    OperatorPar, OperatorMul, OperatorAdd, OperatorGt, OperatorTruediv,
    OperatorLog, OperatorLog10, OperatorLogb, OperatorExp, OperatorSqrt, OperatorPowb,
    OperatorSin, OperatorCos, OperatorTan, OperatorPow, OperatorSub, OperatorEq,
    OperatorNe, OperatorNot, OperatorLe, OperatorGe, OperatorLt, OperatorAnd, OperatorOr,
)
from scinumtools.solver.expression import Expression
from scinumtools.units.unit_solver import AtomParser

_ADDR = re.compile(r"0x[0-9a-fA-F]+")

EXC = {"ValueError": ValueError, "RuntimeError": RuntimeError, "KeyError": KeyError,
       "ZeroDivisionError": ZeroDivisionError, "KeyboardInterrupt": KeyboardInterrupt}


class InjectedFault:
    """Fault plan of the atom seam: raise `exc` at the n-th event of `site`."""
    plan = None
    count = 0
    fired = False

    @classmethod
    def arm(cls, plan):
        cls.plan = plan
        cls.count = 0
        cls.fired = False

    @classmethod
    def tick(cls, site):
        p = cls.plan
        if p is None or p["site"] != site:
            return
        cls.count += 1
        if cls.count == p["n"]:
            cls.fired = True
            raise EXC[p["exc"]]("injected", site, p["n"])


VARS = {"foo": 3.0, "bar": 4.0, "zero": 0.0}


class FaultyAtom(AtomBase):
    """Numeric atom with named variables (as in the README example) whose every
    operation passes through the fault seam and returns its own type."""

    def __init__(self, value):
        if isinstance(value, str):
            InjectedFault.tick("construct")
            v = value.strip()
            self.value = VARS[v] if v in VARS else float(v)
        else:
            self.value = value

    def _a(self, v):
        InjectedFault.tick("arith")
        return FaultyAtom(v)

    def _c(self, v):
        InjectedFault.tick("compare")
        return FaultyAtom(v)

    def _f(self, v):
        InjectedFault.tick("func")
        return FaultyAtom(v)

    def __add__(self, o): return self._a(self.value + o.value)
    def __sub__(self, o): return self._a(self.value - o.value)
    def __mul__(self, o): return self._a(self.value * o.value)
    def __truediv__(self, o): return self._a(self.value / o.value)
    def __pow__(self, o): return self._a(self.value ** o.value)
    def __neg__(self): return self._a(-self.value)
    def log(self): return self._f(np.log(self.value))
    def log10(self): return self._f(np.log10(self.value))
    def sqrt(self): return self._f(np.sqrt(self.value))
    def sin(self): return self._f(np.sin(self.value))
    def cos(self): return self._f(np.cos(self.value))
    def tan(self): return self._f(np.tan(self.value))
    def logical_and(self, o): return self._c(self.value and o.value)
    def logical_or(self, o): return self._c(self.value or o.value)
    def logical_not(self): return self._c(not bool(self.value))
    def __eq__(self, o): return self._c(self.value == o.value)
    def __ne__(self, o): return self._c(self.value != o.value)
    def __le__(self, o): return self._c(self.value <= o.value)
    def __ge__(self, o): return self._c(self.value >= o.value)
    def __lt__(self, o): return self._c(self.value < o.value)
    def __gt__(self, o): return self._c(self.value > o.value)
    __hash__ = None


class InplaceAtom(FaultyAtom):
    """Accumulator-style atom: the value lives in a one-element array and arithmetic works in
    the *left operand's* own storage and returns that operand (cheap, and legal: every atom a
    solve() builds is that call's temporary).  Anything the solver keeps between calls and
    uses again as a left operand shows."""

    def __init__(self, value):
        if isinstance(value, str):
            InjectedFault.tick("construct")
            v = value.strip()
            value = VARS[v] if v in VARS else float(v)
        if isinstance(value, np.ndarray):
            self.value = value
        else:
            self.value = np.array([value], dtype=float)

    def _in(self, ufunc, o):
        InjectedFault.tick("arith")
        ufunc(self.value, o.value, out=self.value)
        return self

    def __add__(self, o): return self._in(np.add, o)
    def __sub__(self, o): return self._in(np.subtract, o)
    def __mul__(self, o): return self._in(np.multiply, o)
    def __truediv__(self, o): return self._in(np.divide, o)
    def __pow__(self, o): return self._in(np.power, o)

    def __neg__(self):
        InjectedFault.tick("arith")
        np.negative(self.value, out=self.value)
        return self

    def _a(self, v): InjectedFault.tick("arith"); return InplaceAtom(v)
    def _c(self, v): InjectedFault.tick("compare"); return InplaceAtom(np.asarray(v, dtype=float).reshape(1))
    def _f(self, v): InjectedFault.tick("func"); return InplaceAtom(v)
    def logical_and(self, o): return self._c(bool(self.value[0]) and bool(o.value[0]))
    def logical_or(self, o): return self._c(bool(self.value[0]) or bool(o.value[0]))
    def logical_not(self): return self._c(not bool(self.value[0]))
    __hash__ = None


def _mk_inplace():
    return ExpressionSolver(InplaceAtom)


class StrAtom(AtomBase):
    """String-valued atom of tests/solver/test_customisation.py, with the fault
    seam in constructor, concatenation and comparison."""
    value: str

    def __init__(self, value):
        InjectedFault.tick("construct")
        self.value = str(value)
        if self.value.strip() == "BAD":
            raise ValueError("unknown atom", value)

    @staticmethod
    def _make(v):
        a = object.__new__(StrAtom)
        a.value = str(v)
        return a

    def __add__(self, o):
        InjectedFault.tick("arith")
        return StrAtom._make(self.value + o.value)

    def __gt__(self, o):
        InjectedFault.tick("compare")
        return StrAtom._make(len(self.value) > len(o.value))


def unit_atom(string=None):
    """The unit parser's atom (a function, not a class) behind the fault seam."""
    InjectedFault.tick("construct")
    return AtomParser(string)


class Label(AtomBase):
    """Word atom of the factory configuration."""

    def __init__(self, value):
        self.value = str(value).strip()

    def __add__(self, o):
        return Label(self.value + str(o.value))

    def __neg__(self):
        return Label("-" + self.value)


def factory_atom(text):
    """Atom *factory* (a function, as the DIP solvers pass): words become Label atoms,
    everything else numeric atoms behind the fault seam."""
    InjectedFault.tick("construct")
    if isinstance(text, str) and text.strip().isalpha():
        return Label(text)
    return FaultyAtom(text) if not isinstance(text, str) else FaultyAtom(text.strip())


def _default_steps(order):
    steps = {
        "args": dict(operators=['log', 'log10', 'logb', 'exp', 'sqrt', 'powb', 'sin', 'cos',
                                'tan', 'par'], otype=Otype.ARGS),
        "sign": dict(operators=['add', 'sub'], otype=Otype.UNARY),
        "pow": dict(operators=['pow'], otype=Otype.BINARY),
        "mul": dict(operators=['mul', 'truediv'], otype=Otype.BINARY),
        "add": dict(operators=['add', 'sub'], otype=Otype.BINARY),
        "cmp": dict(operators=['eq', 'ne', 'le', 'ge', 'lt', 'gt'], otype=Otype.BINARY),
        "not": dict(operators=['not'], otype=Otype.UNARY),
        "and": dict(operators=['and'], otype=Otype.BINARY),
        "or": dict(operators=['or'], otype=Otype.BINARY),
    }
    return [steps[o] for o in order]


def _default_ops():
    return {
        'log': OperatorLog, 'log10': OperatorLog10, 'logb': OperatorLogb,
        'exp': OperatorExp, 'sqrt': OperatorSqrt, 'powb': OperatorPowb,
        'sin': OperatorSin, 'cos': OperatorCos, 'tan': OperatorTan,
        'par': OperatorPar, 'pow': OperatorPow,
        'mul': OperatorMul, 'truediv': OperatorTruediv,
        'add': OperatorAdd, 'sub': OperatorSub,
        'eq': OperatorEq, 'ne': OperatorNe, 'not': OperatorNot,
        'le': OperatorLe, 'ge': OperatorGe, 'lt': OperatorLt, 'gt': OperatorGt,
        'and': OperatorAnd, 'or': OperatorOr,
    }


# instance kinds ------------------------------------------------------------
# name -> (factory, grammar family)
def _mk_base():
    return ExpressionSolver(AtomBase)


def _mk_faulty():
    return ExpressionSolver(FaultyAtom)


REENTRY = {"inner": None, "depth": 0, "problems": []}


class ReentrantAtom(FaultyAtom):
    """An atom whose constructor uses the library itself: while the outer solve() is half-way
    through its expression, another long-lived solver solves two small expressions.  User code
    behind a seam is ordinary code; that it runs in the middle of an operation is the point."""

    def __init__(self, value):
        if isinstance(value, str) and REENTRY["depth"] == 0:
            REENTRY["depth"] += 1
            fired = InjectedFault.fired
            try:
                if REENTRY["inner"] is None:
                    REENTRY["inner"] = ExpressionSolver(FaultyAtom)
                for expr, want in (("1+2*3", 7.0), ("(2+foo)*2", 10.0)):
                    got = REENTRY["inner"].solve(expr).value
                    if got != want:
                        REENTRY["problems"].append([expr, want, repr(got)])
            except BaseException as e:
                if InjectedFault.fired and not fired:
                    raise            # the injected fault landed inside the nested call
                REENTRY["problems"].append(["nested solve", "a value",
                                            type(e).__name__ + repr(e.args)[:120]])
            finally:
                REENTRY["depth"] -= 1
        FaultyAtom.__init__(self, value)


def _mk_reentrant():
    return ExpressionSolver(ReentrantAtom)


def _mk_string():
    operators = {'add': OperatorAdd, 'gt': OperatorGt, 'par': OperatorPar}
    steps = [dict(operators=['par'], otype=Otype.ARGS),
             dict(operators=['add'], otype=Otype.BINARY),
             dict(operators=['gt'], otype=Otype.BINARY)]
    return ExpressionSolver(StrAtom, operators, steps)


def _mk_subset():
    return ExpressionSolver(FaultyAtom, {'par': OperatorPar, 'mul': OperatorMul,
                                         'add': OperatorAdd})


def _mk_nopar():
    # a table with function operators but without the plain parenthesis: '(4)+1' is an error
    return ExpressionSolver(FaultyAtom, {'sqrt': OperatorSqrt, 'exp': OperatorExp,
                                         'mul': OperatorMul, 'add': OperatorAdd})


def _mk_loose():
    # operators that no step mentions: expressions using them end with unprocessed tokens
    steps = [dict(operators=['par'], otype=Otype.ARGS),
             dict(operators=['add', 'sub'], otype=Otype.BINARY)]
    return ExpressionSolver(FaultyAtom, {'par': OperatorPar, 'add': OperatorAdd, 'sub': OperatorSub,
                                         'mul': OperatorMul, 'truediv': OperatorTruediv}, steps)


def _mk_steps():
    # additive step before the multiplicative one, comparisons last
    order = ["args", "sign", "pow", "add", "mul", "cmp", "not", "and", "or"]
    return ExpressionSolver(FaultyAtom, _default_ops(), _default_steps(order))


def _mk_steps2():
    # binary '-' and binary '+' live in separate steps (subtraction first)
    steps = _default_steps(["args", "sign", "pow", "mul"]) + [
        dict(operators=['sub'], otype=Otype.BINARY),
        dict(operators=['add'], otype=Otype.BINARY),
    ] + _default_steps(["cmp", "not", "and", "or"])
    return ExpressionSolver(FaultyAtom, _default_ops(), steps)


# --- atoms whose value is a NumPy array owned by the caller (names map to external arrays)
ARRAYS = {}


def reset_arrays():
    ARRAYS.clear()
    ARRAYS.update({"foo": np.array([3.0, 4.0, 5.0]), "bar": np.array([1.0, 2.0, 0.5]),
                   "zero": np.zeros(3)})


reset_arrays()


class ArrayAtom(AtomBase):
    """As the README's variable atom, but the variables are arrays: the atom holds the
    caller's array by reference, the inherited AtomBase arithmetic does the work."""

    def __init__(self, value):
        if isinstance(value, str):
            InjectedFault.tick("construct")
            v = value.strip()
            self.value = ARRAYS[v] if v in ARRAYS else float(v)
        else:
            self.value = value


def _mk_arrays():
    return ExpressionSolver(ArrayAtom)


# --- an operator table extended by the user: two parenthesis operators of their own, one
# with the standard brackets but ';' between its arguments, one with brackets of its own
class OperatorHyp(OperatorPar):          # hyp(a; b) = sqrt(a*a + b*b)
    symbol: str = 'hyp('
    symbol_separator: str = ';'
    narg: int = 2

    def operate_args(self, tokens):
        a, b = self.args
        tokens.put_left((a * a + b * b).sqrt())


class OperatorAvg(OperatorPar):          # avg[a, b] = (a + b) / 2
    symbol: str = 'avg['
    symbol_open: str = '['
    symbol_close: str = ']'
    narg: int = 2

    def operate_args(self, tokens):
        a, b = self.args
        tokens.put_left((a + b) / tokens.atom(2))


def _mk_customop():
    ops = _default_ops()
    ops.update({'hyp': OperatorHyp, 'avg': OperatorAvg})
    steps = _default_steps(["args", "sign", "pow", "mul", "add", "cmp", "not", "and", "or"])
    steps[0] = dict(steps[0], operators=['hyp', 'avg'] + list(steps[0]['operators']))
    return ExpressionSolver(FaultyAtom, ops, steps)


# --- a user-defined operator with a constructor of its own: "x @<expr>;" scales x by the value
# of <expr>.  The constructor runs in the middle of tokenising, reads its factor text from the
# live expression and evaluates it with another solver (user code using the library itself)
class OperatorScale(OperatorBase):
    symbol: str = '@'

    def __init__(self, expr=None):
        super().__init__(expr)
        text = ''
        while expr.right and not expr.right.startswith(';'):
            text += expr.right[0]
            expr.remove(expr.right[0])
        expr.remove(';')
        with ExpressionSolver(FaultyAtom) as inner:
            self.factor = inner.solve(text)

    def operate_unary(self, tokens):
        tokens.put_left(tokens.get_left() * self.factor)


def _mk_userop():
    operators = {'scale': OperatorScale, 'add': OperatorAdd, 'mul': OperatorMul}
    steps = [dict(operators=['scale'], otype=Otype.UNARY),
             dict(operators=['mul'], otype=Otype.BINARY),
             dict(operators=['add'], otype=Otype.BINARY)]
    return ExpressionSolver(FaultyAtom, operators, steps)


def gen_userop(rng, depth):
    def term():
        t = [rng.choice(NUMS + ["foo", "bar"])]
        if rng.random() < 0.5:
            t.append("@" + rng.choice(["3", "2*5", "(1+1)", "0.5", "foo", "2+1", "((2))"]) + ";")
        return t
    toks = term()
    for _ in range(rng.randint(0, max(1, depth))):
        toks += [rng.choice(["+", "*"])] + term()
    return toks


def _mk_unit():
    return ExpressionSolver(unit_atom, {'par': OperatorPar, 'mul': OperatorMul,
                                        'truediv': OperatorTruediv})


def _mk_factory():
    return ExpressionSolver(factory_atom)


KINDS = {
    "steps2": (_mk_steps2, "numeric"),
    "customop": (_mk_customop, "customop"),
    "nopar": (_mk_nopar, "nopar"),
    "loose": (_mk_loose, "loose"),
    "arrays": (_mk_arrays, "arrays"),
    "inplace": (_mk_inplace, "numeric"),
    "factory": (_mk_factory, "numeric"),
    "base": (_mk_base, "numeric"),
    "faulty": (_mk_faulty, "numeric"),
    "string": (_mk_string, "string"),
    "subset": (_mk_subset, "subset"),
    "steps": (_mk_steps, "numeric"),
    "unit": (_mk_unit, "unit"),
    "reentrant": (_mk_reentrant, "numeric"),
    "userop": (_mk_userop, "userop"),
}
KIND_ORDER = ["base", "faulty", "string", "subset", "steps", "unit", "factory", "steps2",
              "arrays", "customop", "nopar", "loose", "inplace", "reentrant", "userop"]


# expression generator ---------------------------------------------------------
# Expressions are generated as token lists so that text faults can be placed at a
# chosen token index.

NUMS = ["0", "1", "2", "3", "7", "10", "0.5", "2.5", "100", "1e3", "12.75"]
FUNC1 = ["log(", "log10(", "exp(", "sqrt(", "sin(", "cos(", "tan("]
FUNC2 = ["logb(", "pow("]


def gen_numeric(rng, depth, names, custom=False):
    """Token list of a well-formed expression of the default operator table."""
    def atom():
        if names and rng.random() < 0.25:
            return [rng.choice(["foo", "bar", "zero"])]
        return [rng.choice(NUMS)]

    def expr(d, level):
        # level: 0 or, 1 and, 2 not, 3 cmp, 4 add, 5 mul, 6 pow, 7 unary, 8 primary
        if d <= 0:
            return atom()
        r = rng.random()
        if level == 0:
            if r < 0.25:
                return expr(d - 1, 1) + ["||"] + expr(d - 1, 0)
            return expr(d, 1)
        if level == 1:
            if r < 0.25:
                return expr(d - 1, 2) + ["&&"] + expr(d - 1, 1)
            return expr(d, 2)
        if level == 2:
            if r < 0.12:
                return ["!"] + expr(d - 1, 3)
            return expr(d, 3)
        if level == 3:
            if r < 0.3:
                return expr(d - 1, 4) + [rng.choice(["==", "!=", "<=", ">=", "<", ">"])] \
                    + expr(d - 1, 4)
            return expr(d, 4)
        if level == 4:
            if r < 0.45:
                return expr(d - 1, 4) + [rng.choice(["+", "-"])] + expr(d - 1, 5)
            return expr(d, 5)
        if level == 5:
            if r < 0.4:
                return expr(d - 1, 5) + [rng.choice(["*", "/"])] + expr(d - 1, 6)
            return expr(d, 6)
        if level == 6:
            if r < 0.15:
                return expr(d - 1, 8) + ["**"] + expr(d - 1, 8)
            return expr(d, 7)
        if level == 7:
            if r < 0.2:
                return [rng.choice(["+", "-"])] + expr(d - 1, 8)
            return expr(d, 8)
        # primary
        if custom and rng.random() < 0.2:
            if rng.random() < 0.5:
                return ["hyp("] + expr(d - 1, 4) + [";"] + expr(d - 1, 4) + [")"]
            return ["avg["] + expr(d - 1, 4) + [","] + expr(d - 1, 4) + ["]"]
        if r < 0.35:
            return atom()
        if r < 0.65:
            return ["("] + expr(d - 1, 0) + [")"]
        if r < 0.9:
            return [rng.choice(FUNC1)] + expr(d - 1, 4) + [")"]
        return [rng.choice(FUNC2)] + expr(d - 1, 4) + [","] + expr(d - 1, 4) + [")"]

    return expr(depth, 0)


def gen_subset(rng, depth):
    def expr(d):
        r = rng.random()
        if d <= 0 or r < 0.3:
            return [rng.choice(NUMS + ["foo", "bar"])]
        if r < 0.55:
            return expr(d - 1) + ["+"] + expr(d - 1)
        if r < 0.8:
            return expr(d - 1) + ["*"] + expr(d - 1)
        return ["("] + expr(d - 1) + [")"]
    return expr(depth)


def gen_nopar(rng, depth):
    def expr(d):
        r = rng.random()
        if d <= 0 or r < 0.3:
            return [rng.choice(NUMS + ["foo", "bar"])]
        if r < 0.5:
            return expr(d - 1) + ["+"] + expr(d - 1)
        if r < 0.65:
            return expr(d - 1) + ["*"] + expr(d - 1)
        if r < 0.88:
            return [rng.choice(["sqrt(", "exp("])] + expr(d - 1) + [")"]
        return ["("] + expr(d - 1) + [")"]          # no such operator in this table
    return expr(depth)


def gen_loose(rng, depth):
    def expr(d):
        r = rng.random()
        if d <= 0 or r < 0.3:
            return [rng.choice(NUMS + ["foo", "bar"])]
        if r < 0.55:
            return expr(d - 1) + [rng.choice(["+", "-"])] + expr(d - 1)
        if r < 0.85:
            return expr(d - 1) + [rng.choice(["*", "/"])] + expr(d - 1)   # in no step
        return ["("] + expr(d - 1) + [")"]
    return expr(depth)


WORDS = ["limit", "a", "bc", "100 km", "x y z", "foo", ""]


def gen_string(rng, depth):
    def expr(d):
        r = rng.random()
        if d <= 0 or r < 0.3:
            return [rng.choice(WORDS[:-1])]
        if r < 0.65:
            return expr(d - 1) + ["+"] + expr(d - 1)
        if r < 0.8:
            return expr(d - 1) + [">"] + expr(d - 1)
        return ["("] + expr(d - 1) + [")"]
    return expr(depth)


UNITS = ["m", "kg", "s", "km", "cm2", "s-1", "N", "J", "erg", "Pa", "m3", "s-2", "mol",
         "K", "g:1:2", "2", "1e3", "W", "eV", "[c]"]


def gen_unit(rng, depth):
    def expr(d):
        r = rng.random()
        if d <= 0 or r < 0.35:
            return [rng.choice(UNITS)]
        if r < 0.6:
            return expr(d - 1) + ["*"] + expr(d - 1)
        if r < 0.85:
            return expr(d - 1) + ["/"] + expr(d - 1)
        return ["("] + expr(d - 1) + [")"]
    return expr(depth)


# canaries: fixed expressions whose outcome on a pristine fresh instance is recorded at the
# start of every run; any instance must give exactly that outcome at any later time (an
# absolute reference - the differential oracle alone would not notice state shared by all
# instances, e.g. a class attribute)
CANARIES = {
    "numeric": ["1", "2+3*4", "(1+2)*3-4/2", "-2**2", "sin(0)+cos(0)", "1<2&&3>=3", "foo*bar",
                "pow(2,3)", "sqrt(0-1)", "log(0)", "log10(0-5)+1"],
    "subset": ["1", "2+3*4", "(1+2)*3", "foo*bar+1"],
    "string": ["a", "a+bc", "(a+bc)>x y z", "limit+100 km"],
    "unit": ["m", "kg*m2/s2", "km/(s*K)", "1e3*J"],
    "arrays": ["foo", "foo - 1", "foo * 2", "foo + bar", "bar / 2 - foo", "zero + 1"],
    "nopar": ["1", "sqrt(16)+1", "2*3+1", "(4)+1", "exp(0)*2"],
    "loose": ["1", "1+2", "8/2*4", "(1+2)-3", "2*3", "8*2/4"],
    "userop": ["1", "2 @3; + 1", "3 @2*5; + 1", "4 @(1+1);", "1 + 2*3", "foo @2; * bar @3;"],
    "customop": ["1", "hyp(3; 4)", "pow(2, 3)", "avg[1, 3]*2", "logb(8, 2)+hyp(6; 8)", "(1+2)*3"],
}
_DEEP = "(" * 49 + "1+2" + ")" * 49
for _fam in ("numeric", "customop"):
    CANARIES[_fam].append(_DEEP)
BASE_CANARIES = [c for c in CANARIES["numeric"] if "foo" not in c]

OPENERS = set(["(", "hyp(", "avg["] + FUNC1 + FUNC2)
BINOPS = {"||", "&&", "==", "!=", "<=", ">=", "<", ">", "+", "-", "*", "/", "**"}


def is_atom_token(t):
    return t not in OPENERS and t not in BINOPS and t not in (")", ",", "!", ";", "]")


TEXT_FAULTS = ["unknown_atom", "missing_close", "extra_open", "arity", "no_right",
               "no_left", "double_op", "empty_par", "dangling_exponent"]


def text_fault(tokens, kind, pos, family):
    """Apply a single-edit corruption near token index pos.  Returns the new
    token list or None when the kind does not apply to this expression."""
    n = len(tokens)
    order = list(range(pos % n, n)) + list(range(0, pos % n))
    bad = {"numeric": "qux", "subset": "qux", "string": "BAD", "unit": "xyz",
           "arrays": "qux", "customop": "qux", "nopar": "qux", "loose": "qux", "userop": "qux"}[family]
    if kind == "unknown_atom":
        for i in order:
            if is_atom_token(tokens[i]):
                return tokens[:i] + [bad] + tokens[i + 1:]
        return None
    if kind == "missing_close":
        for i in order:
            if tokens[i] == ")":
                return tokens[:i] + tokens[i + 1:]
        return tokens + ["*", "(", "1"] if family != "string" else tokens + ["+", "(", "a"]
    if kind == "extra_open":
        i = order[0]
        return tokens[:i] + ["("] + tokens[i:]
    if kind == "arity":
        for i in order:
            if tokens[i] == ",":
                # drop the separator and the second argument's first token
                return tokens[:i] + tokens[i + 2:]
            if tokens[i] in FUNC1:
                return tokens[:i + 1] + ["1", ","] + tokens[i + 1:]
        return None
    if kind == "no_right":
        for i in order:
            if tokens[i] in BINOPS and i + 1 < n and is_atom_token(tokens[i + 1]):
                return tokens[:i + 1] + tokens[i + 2:]
        return tokens + [("+" if family != "unit" else "*")]
    if kind == "no_left":
        for i in order:
            if tokens[i] in BINOPS and i > 0 and is_atom_token(tokens[i - 1]) \
                    and tokens[i] not in ("+", "-"):
                return tokens[:i - 1] + tokens[i:]
        return [("*" if family != "string" else ">")] + tokens
    if kind == "double_op":
        for i in order:
            if tokens[i] in BINOPS and tokens[i] not in ("+", "-", "*"):
                return tokens[:i] + [tokens[i]] + tokens[i:]
        return None
    if kind == "empty_par":
        i = order[0]
        return tokens[:i] + ["(", ")"] + tokens[i:]
    if kind == "dangling_exponent":
        # a number that ends where its exponent should begin: '2e', '7.5E' as the last atom
        for i in reversed(range(n)):
            if is_atom_token(tokens[i]) and tokens[i][:1].isdigit() and "e" not in tokens[i].lower():
                return tokens[:i] + [tokens[i] + ("e" if pos % 2 == 0 else "E")]
        return None
    return None


def render(tokens, rng, blanks):
    if not blanks:
        return "".join(tokens)
    out = []
    for t in tokens:
        out.append(t)
        if rng.random() < blanks:
            out.append(" " * rng.randint(1, 2))
    return "".join(out)


def gen_arrays(rng, depth):
    def expr(d):
        r = rng.random()
        if d <= 0 or r < 0.3:
            return [rng.choice(["foo", "bar", "zero", "1", "2", "0.5"])]
        if r < 0.8:
            return expr(d - 1) + [rng.choice(["+", "-", "-", "*", "/", "**"])] + expr(d - 1)
        if r < 0.9:
            return ["("] + expr(d - 1) + [")"]
        return [rng.choice(["sqrt(", "exp(", "sin("])] + expr(d - 1) + [")"]
    return expr(depth)


def gen_tokens(rng, family, depth):
    if family == "arrays":
        return gen_arrays(rng, min(depth, 3))
    if family == "numeric":
        return gen_numeric(rng, depth, True)
    if family == "customop":
        return gen_numeric(rng, depth, True, custom=True)
    if family == "subset":
        return gen_subset(rng, depth)
    if family == "nopar":
        return gen_nopar(rng, depth)
    if family == "loose":
        return gen_loose(rng, depth)
    if family == "userop":
        return gen_userop(rng, depth)
    if family == "string":
        return gen_string(rng, depth)
    return gen_unit(rng, depth)


# the machine --------------------------------------------------------------------

def observe(fn):
    """Outcome of a call as a comparable value."""
    try:
        r = fn()
    except BaseException as e:  # KeyboardInterrupt is one of the injected faults
        if isinstance(e, (SystemExit, GeneratorExit, MemoryError)):
            raise
        return ("raise", type(e).__name__, _ADDR.sub("0x", repr(e.args)))
    v = getattr(r, "value", None)
    if hasattr(r, "baseunits") and hasattr(r, "magnitude"):
        return ("value", type(r).__name__, repr((r.magnitude, sorted(
            (k, repr(x)) for k, x in r.baseunits.items()))))
    return ("value", type(r).__name__, _ADDR.sub("0x", repr(v)), type(v).__name__)


# Reference outcomes of the canaries, each computed in a process of its own that has solved
# nothing else (forked from the still pristine checking process before the search starts).
# The per-run "pristine" record below cannot see state that is shared by all instances *and*
# was already set by an earlier run of the same worker process; this one can.
REFERENCE = None


def _canaries(kind):
    return BASE_CANARIES if kind == "base" else CANARIES[KINDS[kind][1]]


def _reference_child(kind, expr, conn):
    try:
        InjectedFault.arm(None)
        reset_arrays()
        conn.send(observe(lambda: KINDS[kind][0]().solve(expr)))
    except BaseException as e:      # noqa: B902
        conn.send(("harness", type(e).__name__, repr(e.args)[:200]))
    finally:
        conn.close()
        os._exit(0)


def compute_reference(parallel=16):
    import multiprocessing as mp
    ctx = mp.get_context("fork")
    jobs = [(k, c) for k in KIND_ORDER for c in _canaries(k)]
    ref = {k: {} for k in KIND_ORDER}
    running = []

    def reap(block):
        for item in list(running):
            proc, conn, k, c = item
            if block or conn.poll(0):
                if conn.poll(60):
                    ref[k][c] = tuple(conn.recv())
                proc.join(10)
                running.remove(item)
    for k, c in jobs:
        while len(running) >= parallel:
            reap(False)
        a, b = ctx.Pipe(duplex=False)
        proc = ctx.Process(target=_reference_child, args=(k, c, b))
        proc.start()
        b.close()
        running.append((proc, a, k, c))
    while running:
        reap(True)
    return ref


def _in_session(es, op, arg):
    if op.get("session") and hasattr(es, "__enter__"):
        with es as s:
            return s.solve(arg)
    return es.solve(arg)


class SolverMachine(Machine):
    NAME = "solver"

    @classmethod
    def prepare(cls, prop):
        """Called once by the check in a process that has not solved anything yet."""
        global REFERENCE
        if REFERENCE is None:
            REFERENCE = compute_reference()

    @classmethod
    def gen_config(cls, rng, prop, tier):
        kinds = [k for k in KIND_ORDER if rng.random() < 0.6]
        if not kinds:
            kinds = [rng.choice(KIND_ORDER)]
        enabled_text = [k for k in TEXT_FAULTS if rng.random() < 0.6]
        enabled_sites = [s for s in ("construct", "arith", "compare", "func")
                         if rng.random() < 0.6]
        fault_free = rng.random() < 0.25
        return {
            "prop": prop, "tier": tier, "kinds": kinds,
            "max_ops": rng.randint(4, 16) if tier == "quick" else rng.randint(4, 24),
            "depth": rng.randint(1, 4 if tier == "quick" else 5),
            "blanks": rng.choice([0, 0, 0.3, 0.8]),
            "p_fault": 0.0 if fault_free else rng.choice([0.15, 0.3, 0.5]),
            "text_faults": enabled_text, "sites": enabled_sites,
            "interrupts": rng.random() < 0.3,
            "sweep": (not fault_free) and rng.random() < 0.5,
            # several `with` sessions on the same long-lived objects, in turn
            "sessions": rng.random() < 0.35,
        }

    def start(self):
        self.inst = {k: KINDS[k][0]() for k in self.cfg["kinds"]}
        self.last = {k: "new" for k in self.cfg["kinds"]}
        self.failed_before = {k: False for k in self.cfg["kinds"]}
        self.queue = []
        self.swept = False
        self.abstract = "new"
        InjectedFault.arm(None)
        reset_arrays()
        REENTRY.update(inner=None, depth=0, problems=[])
        # pristine outcomes, before any history of this run
        self.pristine = {}
        for k in self.cfg["kinds"]:
            cans = BASE_CANARIES if k == "base" else CANARIES[KINDS[k][1]]
            self.pristine[k] = {c: observe(lambda: KINDS[k][0]().solve(c)) for c in cans
                                if c != _DEEP}

    def stop(self):
        InjectedFault.arm(None)

    # -- generation -----------------------------------------------------------
    def _valid(self, rng, kind):
        family = KINDS[kind][1]
        toks = gen_tokens(rng, family, self.cfg["depth"])
        if len(toks) > 30:
            toks = gen_tokens(rng, family, 2)
        return toks, family

    def _count_atoms(self, toks):
        return sum(1 for t in toks if is_atom_token(t))

    def gen_op(self, rng):
        op = self._gen_op(rng)
        if op is not None and self.cfg.get("sessions") and rng.random() < 0.5:
            # the long-lived instance is used as a context manager for this call
            # (`with solver as s: s.solve(...)`): one session of many on the same object
            op = dict(op, session=True)
        return op

    def _gen_op(self, rng):
        if self.queue:
            return self.queue.pop(0)
        cfg = self.cfg
        kind = rng.choice(cfg["kinds"])
        if rng.random() < 0.12:
            cans = BASE_CANARIES if kind == "base" else CANARIES[KINDS[kind][1]]
            return {"op": "canary", "inst": kind, "expr": rng.choice(cans)}
        toks, family = self._valid(rng, kind)
        if family in ("numeric", "customop") and rng.random() < 0.02:
            # an expression nested far deeper than anybody writes by hand
            n = rng.choice([30, 49, 51, 60, 80, 120])
            return {"op": "solve", "inst": kind, "expr": "(" * n + "2*3" + ")" * n,
                    "fault": None, "tf": None}
        # fault enumeration: once per run, sweep a fault over every position
        if cfg["sweep"] and not self.swept and rng.random() < 0.3:
            self.swept = True
            probe, _ = self._valid(rng, kind)
            probe_op = {"op": "solve", "inst": kind, "expr": render(probe, rng, cfg["blanks"]),
                        "fault": None, "tf": None}
            ops = []
            mode = rng.choice(["text", "atom"])
            if mode == "text" and cfg["text_faults"]:
                tf = rng.choice(cfg["text_faults"])
                for pos in range(len(toks)):
                    bad = text_fault(toks, tf, pos, family)
                    if bad is None:
                        continue
                    ops.append({"op": "solve", "inst": kind,
                                "expr": render(bad, rng, cfg["blanks"]),
                                "fault": None, "tf": f"{tf}@{pos}"})
                    ops.append(dict(probe_op))
            elif kind != "base":
                site = rng.choice(cfg["sites"] or ["construct"])
                exc = self._exc(rng)
                for n in range(1, self._count_atoms(toks) + 2):
                    ops.append({"op": "solve", "inst": kind,
                                "expr": render(toks, rng, cfg["blanks"]),
                                "fault": {"site": site, "n": n, "exc": exc}, "tf": None})
                    ops.append(dict(probe_op))
            if ops:
                self.stats.probe("sweeps")
                self.queue = ops[1:]
                return ops[0]
        fault = None
        tf = None
        if rng.random() < cfg["p_fault"]:
            if cfg["text_faults"] and (rng.random() < 0.6 or kind == "base"
                                       or not cfg["sites"]):
                name = rng.choice(cfg["text_faults"])
                pos = rng.randrange(len(toks))
                bad = text_fault(toks, name, pos, family)
                if bad is not None:
                    toks, tf = bad, f"{name}@{pos}"
            elif cfg["sites"] and kind != "base":
                fault = {"site": rng.choice(cfg["sites"]),
                         "n": rng.randint(1, max(1, self._count_atoms(toks))),
                         "exc": self._exc(rng)}
        op = {"op": "solve", "inst": kind, "expr": render(toks, rng, cfg["blanks"]),
              "fault": fault, "tf": tf}
        if rng.random() < 0.15:
            op["as_object"] = True
        return op

    def _exc(self, rng):
        if self.cfg["interrupts"] and rng.random() < 0.4:
            return "KeyboardInterrupt"
        return rng.choice(["ValueError", "RuntimeError", "KeyError", "ZeroDivisionError"])

    # -- execution --------------------------------------------------------------
    def apply(self, op):
        kind = op["inst"]
        if kind not in self.inst:
            # trace was shrunk or config changed: create on demand
            if kind not in KINDS:
                return "skip", None
            self.inst[kind] = KINDS[kind][0]()
            self.last[kind] = "new"
            self.failed_before[kind] = False
        es = self.inst[kind]
        if op["op"] == "canary":
            return self._apply_canary(op, kind, es)
        expr, fault = op["expr"], op["fault"]
        # probe (private state, never part of the verdict)
        t = getattr(es, "tokens", None)
        if t is not None and (getattr(t, "left", None) or getattr(t, "right", None)):
            self.stats.probe("call_started_with_leftover_tokens")
        if self.failed_before[kind]:
            self.nontrivial = True
            self.stats.probe("call_after_failed_call")

        # no np.errstate() around the calls: NumPy's error mode is process-level state that a
        # solve may leave changed, and a context manager here would put it back unnoticed
        # the argument is the text, or (the other documented form) an Expression object made
        # for this call and dropped after it
        arg = (lambda: Expression(expr)) if op.get("as_object") else (lambda: expr)
        InjectedFault.arm(fault)
        got = observe(lambda: _in_session(es, op, arg()))
        fired = InjectedFault.fired
        fresh = KINDS[kind][0]()
        InjectedFault.arm(fault)
        want = observe(lambda: fresh.solve(arg()))
        InjectedFault.arm(None)

        if fault is not None:
            self.stats.fault(f"atom_{fault['site']}_{'interrupt' if fault['exc'] == 'KeyboardInterrupt' else 'error'}", fired)
        if op.get("tf"):
            self.stats.fault("text_" + op["tf"].split("@")[0], want[0] == "raise")

        if REENTRY["problems"]:
            probs, REENTRY["problems"] = REENTRY["problems"], []
            raise Violation(
                "nested_solve_inside_an_atom_constructor_wrong",
                {"instance": kind, "outer_expr": expr, "fault": fault,
                 "nested [expr, want, got]": probs[:3]},
                signature=f"C02/reentry/{kind}")
        if kind == "reentrant":
            self.stats.fault("solver_used_from_inside_an_atom_constructor", True)
        if got != want:
            raise Violation(
                "history_dependence",
                {"instance": kind, "expr": expr, "fault": fault,
                 "reused_instance": got, "fresh_instance": want},
                signature=f"C02/history_dependence/{kind}")
        outcome = "ok" if want[0] == "value" else "err:" + want[1]
        if want[0] == "raise":
            self.failed_before[kind] = True
        self.last[kind] = outcome
        self.abstract = ",".join(f"{k}={self.last[k]}" for k in sorted(self.last))
        return outcome, want

    def _apply_canary(self, op, kind, es):
        want = self.pristine.get(kind, {}).get(op["expr"])
        if want is None and (REFERENCE or {}).get(kind, {}).get(op["expr"]) is None:
            return "skip", None
        if self.failed_before[kind]:
            self.stats.probe("canary_after_failed_call")
        InjectedFault.arm(None)
        got = observe(lambda: _in_session(es, op, op["expr"]))
        fresh = observe(lambda: KINDS[kind][0]().solve(op["expr"]))
        ref = (REFERENCE or {}).get(kind, {}).get(op["expr"])
        if ref is not None and ref[0] != "harness" and tuple(got) != tuple(ref):
            # what a process that has solved nothing else returns for this expression
            raise Violation("history_dependence_vs_fresh_process",
                            {"instance": kind, "expr": op["expr"], "reused_instance": got,
                             "fresh_process": list(ref), "fresh_instance_now": fresh},
                            signature=f"C02/fresh_process/{kind}")
        if want is None:
            return "canary_ok", list(got)
        if got != want:
            raise Violation("history_dependence_vs_pristine",
                            {"instance": kind, "expr": op["expr"], "reused_instance": got,
                             "pristine_fresh_instance_at_run_start": want,
                             "fresh_instance_now": fresh},
                            signature=f"C02/pristine/{kind}")
        if fresh != want:
            # a brand-new instance is affected by what other instances solved: state shared
            # between instances; the long-lived instance's own later answers depend on it too
            raise Violation("fresh_instance_depends_on_earlier_solves",
                            {"instance": kind, "expr": op["expr"], "fresh_instance_now": fresh,
                             "pristine_fresh_instance_at_run_start": want},
                            signature=f"C02/shared_state/{kind}")
        return "canary_ok", want

    @classmethod
    def simplify(cls, op):
        if op.get("session"):
            yield dict(op, session=False)
        if op.get("op") != "solve":
            return
        if op.get("fault"):
            yield dict(op, fault=None)
            if op["fault"]["n"] > 1:
                yield dict(op, fault=dict(op["fault"], n=1))
            if op["fault"]["exc"] != "ValueError":
                yield dict(op, fault=dict(op["fault"], exc="ValueError"))
        e = op["expr"]
        fam = KINDS.get(op["inst"], (None, "numeric"))[1]
        simple = {"arrays": ["foo", "foo-1", "(foo", "foo+qux"],
                  "numeric": ["1", "1+", "(1", "1+qux", "1+1"],
                  "customop": ["1", "hyp(3;4)", "pow(2,3)", "(1)", "avg[1,3]", "1+qux"],
                  "nopar": ["1", "sqrt(4)", "(4)", "1+qux", "1+1"],
                  "loose": ["1", "1+2", "2*3", "8/2", "8/2*4", "1+qux"],
                  "userop": ["1", "2 @3;", "1+1", "2 @3; + 1", "1+qux"],
                  "subset": ["1", "1+", "(1", "1+qux", "1+1"],
                  "string": ["a", "a+", "(a", "a+BAD", "a+a"],
                  "unit": ["m", "m*", "(m", "m*xyz", "m*s"]}[fam]
        for s in simple:
            if len(s) < len(e):
                yield dict(op, expr=s, tf=None)
        if " " in e:
            yield dict(op, expr=e.replace(" ", ""))
        # drop one character-run at a time (halves, then quarters)
        n = len(e)
        if n > 3:
            yield dict(op, expr=e[: n // 2])
            yield dict(op, expr=e[n // 2:])

    @classmethod
    def rule(cls, prop):
        return ("runs: seeded histories of solve() on up to 6 long-lived instances (default, "
                "fault-seam atom, string atom, operator subset, custom step order, unit-parser "
                "atom); a run is non-trivial when some instance is called again after a call "
                "on it failed; distinct = distinct sequences of (instance+op kind, abstract "
                "pre-state = last outcome class per instance, outcome class)")

    @classmethod
    def components(cls, prop):
        return {"real": ["scinumtools.solver.ExpressionSolver", "Tokens", "Expression",
                         "all Operator* classes", "AtomBase", "units.unit_solver.AtomParser"],
                "stub": ["atom types FaultyAtom/StrAtom/unit_atom (fault seam: the atom is a "
                         "constructor argument of the solver)"]}
