"""Deterministic simulator for scinumtools (see /verif/DESIGN.md)."""
