"""C09 is decided on two simulators that share one oracle (the process-wide unit, prefix and
conversion-class tables are what they were before): the unit-scope machine drives
UnitEnvironment directly, the DIP machine reaches the same registration code "by parsing DIP
text that defines units" - with the whole statement generator of the DIP checks behind it
(failing conversions, unevaluable conditions, raising callbacks, unreadable files, imports),
so that every way a parse can end early is also a way a scope can end.  One run is one or the
other; the configuration says which ("sub")."""
from .core import Machine
from .m_unitscope import UnitScopeMachine
from .m_dipstore import DipStoreMachine

SUBS = {"unitscope": UnitScopeMachine, "dipstore": DipStoreMachine}
_DIP_OPS = ("round", "write_file")


class C09Machine(Machine):
    NAME = "c09"

    def __init__(self, config):
        self.cfg = config
        self.sub = SUBS[config.get("sub", "unitscope")](config)

    # state the runner reads
    stats = property(lambda self: self.sub.stats)
    nontrivial = property(lambda self: self.sub.nontrivial)
    abstract = property(lambda self: config_tag(self.cfg) + self.sub.abstract)

    @classmethod
    def gen_config(cls, rng, prop, tier):
        if rng.random() < 0.7:
            cfg = UnitScopeMachine.gen_config(rng, prop, tier)
            cfg["sub"] = "unitscope"
        else:
            cfg = DipStoreMachine.gen_config(rng, prop, tier)
            cfg["sub"] = "dipstore"
        return cfg

    def start(self):
        self.sub.start()

    def gen_op(self, rng):
        return self.sub.gen_op(rng)

    def apply(self, op):
        return self.sub.apply(op)

    def finish(self):
        self.sub.finish()

    def stop(self):
        self.sub.stop()

    def resync(self, violation):
        return self.sub.resync(violation)

    @classmethod
    def simplify(cls, op):
        if op.get("op") in _DIP_OPS:
            return DipStoreMachine.simplify(op)
        return UnitScopeMachine.simplify(op)

    @classmethod
    def rule(cls, prop):
        return ("about 70% of the runs: " + UnitScopeMachine.rule(prop) + "  ||  about 30% of the "
                "runs: DIP rounds (" + DipStoreMachine.rule(prop) + ") with only the table oracle "
                "reported: after every parse, accepted or refused at any statement, the three "
                "tables equal the baseline; verdicts of the DIP model belong to C14/C16/C17 and "
                "are counted as probes (foreign_*)")

    @classmethod
    def components(cls, prop):
        a, b = UnitScopeMachine.components(prop), DipStoreMachine.components(prop)
        return {"real": sorted(set(a["real"]) | set(b["real"])),
                "stub": sorted(set(a["stub"]) | set(b["stub"]))}


def config_tag(cfg):
    return "D:" if cfg.get("sub") == "dipstore" else ""
