"""Make `import scinumtools` resolve to the tree under test.

The tree is SNT_SRC (default /repo/src).  Nothing is written there:
PYTHONDONTWRITEBYTECODE is forced and sys.dont_write_bytecode is set before
the first import of the library.  The harness refuses to run when the library
was imported from anywhere else.
"""
import os
import sys
import warnings

SNT_SRC = os.path.realpath(os.environ.get("SNT_SRC", "/repo/src"))


def activate():
    sys.dont_write_bytecode = True
    os.environ["PYTHONDONTWRITEBYTECODE"] = "1"
    if "scinumtools" in sys.modules:
        mod = sys.modules["scinumtools"]
    else:
        if SNT_SRC in sys.path:
            sys.path.remove(SNT_SRC)
        sys.path.insert(0, SNT_SRC)
        warnings.filterwarnings("ignore", category=SyntaxWarning)
        warnings.filterwarnings("ignore", category=DeprecationWarning)
        warnings.filterwarnings("ignore", category=RuntimeWarning)
        import scinumtools as mod  # noqa: F401
    where = os.path.realpath(mod.__file__)
    if not where.startswith(SNT_SRC + os.sep):
        raise RuntimeError(
            f"scinumtools imported from {where}, expected below {SNT_SRC}")
    return SNT_SRC
