"""The DIP environment chain as a transactional store (C14, C16, C17).

DIP.parse() copies the base environment, applies the queued text to the copy
and either returns the new environment or raises.  Environments are chained
(DIP(env)), text comes from several add_string / add_file calls, remote
sources are files read during the parse (through SimFS).

One operation = one *round* (a transaction) on top of any earlier committed
environment, generated statement by statement against the reference model
(sim.dipmodel), optionally with one fault; or a write to a SimFS file between
rounds.  Each property's command enables its own statement mix and reports
only violations of its own clauses.
"""
import copy
import os
import re
import math

import numpy as np

from .core import Machine, Violation
from . import dipmodel as DM
from . import tables
from .simfs import SimFS, ROOT

from scinumtools.dip import DIP, Format

NAMES = ["a", "b", "c", "d", "e", "f", "gg", "hh", "x1", "y_2", "size", "mass", "flag", "label"]
# box/box2 and cfg/cfgx share a prefix on purpose: child queries must not match siblings
BIG_INTS = [9007199254740993, -1234567890123456789, 1234567890123456789, 4611686018427387905,
            -9007199254740995, 72057594037927937]
GROUPS = ["box", "sim", "out", "grp", "inner", "cfg", "box2", "cfgx"]
WORDS = ["dog", "cat", "horse", "abc", "x", "New York", "run-1", "zeta", "A1"]
FORMATS = [("[a-z]+", ["dog", "cat", "abc", "zeta"], ["A1", "New York", "X"]),
           ("[A-Z][0-9]", ["A1", "B7"], ["dog", "a1", "1A"]),
           ("(dog|cat)$", ["dog", "cat"], ["horse", "doge", "x"]),
           ("[A-Z][a-z]+", ["Bob", "Alice", "None", "True"], ["dog", "x1", "42"]),
           ("[A-Za-z]+$", ["Bob", "dog", "none"[:0] + "Nil"], ["A1", "New York", "42"])]


# ------------------------------------------------------------------------------ comparison

def num_close(a, b, tol=1e-12):
    if isinstance(a, bool) or isinstance(b, bool):
        return isinstance(a, (bool, np.bool_)) and isinstance(b, (bool, np.bool_)) and bool(a) == bool(b)
    if isinstance(a, (int, np.integer)) and isinstance(b, (int, np.integer)):
        return int(a) == int(b)        # integers are compared as integers (2**53 + 1 is not 2**53)
    try:
        fa, fb = float(a), float(b)
    except Exception:
        return False
    if fa == fb:
        return True
    return abs(fa - fb) <= tol * max(abs(fa), abs(fb))


def same_value(got, want, tol=1e-12):
    """Implementation payload vs model value."""
    if want is None:
        return got is None
    if got is None:
        return False
    if isinstance(want, list):
        if isinstance(got, np.ndarray):
            got = got.tolist()
        if not isinstance(got, (list, tuple)) or len(got) != len(want):
            return False
        return all(same_value(g, w, tol) for g, w in zip(got, want))
    if isinstance(want, str):
        return isinstance(got, str) and got == want
    if isinstance(want, bool):
        return isinstance(got, (bool, np.bool_)) and bool(got) == want
    if isinstance(got, (str, list, tuple, np.ndarray)):
        return False
    return num_close(got, want, tol)


def split_tuple(v):
    if isinstance(v, tuple) and len(v) == 2 and (v[1] is None or isinstance(v[1], str)):
        return v[0], v[1]
    return v, None


def env_snapshot(env):
    """Everything later rounds must leave untouched (public accessors only)."""
    # (the same accessor read in both orders: an accessor that answers from what it answered
    # last time must not get away with it)
    types = {k: (type(v).__name__, getattr(v, "precision", None), getattr(v, "unsigned", None))
             for k, v in env.data(format=Format.TYPE).items()}
    data = copy.deepcopy(env.data(format=Format.TUPLE))
    env.data(format=Format.TYPE)
    data2 = env.data(format=Format.TUPLE)
    if list(data2.keys()) != list(data.keys()):
        data = copy.deepcopy(data2)
    units = {k: (copy.deepcopy(v.get("magnitude")), copy.deepcopy(v.get("dimensions")))
             for k, v in env.units.items()}
    sources = {}
    for sname, src in env.sources.items():
        nodes = getattr(src, "nodes", None)
        if nodes is None:
            continue
        rows = []
        for n in nodes:
            v = getattr(n, "value", None)
            rows.append((n.name, copy.deepcopy(getattr(v, "value", None)),
                         getattr(v, "unit", None)))
        sources[sname] = rows
    return {"keys": list(data.keys()), "data": data, "types": types, "units": units,
            "sources": sources}


def snapshot_equal(a, b):
    if a["keys"] != b["keys"] or a["types"] != b["types"]:
        return False
    for k in a["keys"]:
        va, ua = split_tuple(a["data"][k])
        vb, ub = split_tuple(b["data"][k])
        if ua != ub:
            return False
        if not _exact(va, vb):
            return False
    if list(a.get("sources", {})) != list(b.get("sources", {})):
        return False
    for k, rows in a.get("sources", {}).items():
        other = b["sources"][k]
        if len(rows) != len(other):
            return False
        for (n1, v1, u1), (n2, v2, u2) in zip(rows, other):
            if n1 != n2 or u1 != u2 or not _exact(v1, v2):
                return False
    if list(a["units"]) != list(b["units"]):
        return False
    for k in a["units"]:
        if not _exact(a["units"][k][0], b["units"][k][0]) or \
                repr(a["units"][k][1]) != repr(b["units"][k][1]):
            return False
    return True


def _exact(a, b):
    if isinstance(a, np.ndarray):
        a = a.tolist()
    if isinstance(b, np.ndarray):
        b = b.tolist()
    if isinstance(a, (list, tuple)) or isinstance(b, (list, tuple)):
        return isinstance(a, (list, tuple)) and isinstance(b, (list, tuple)) and \
            len(a) == len(b) and all(_exact(x, y) for x, y in zip(a, b))
    if a is None or b is None:
        return a is None and b is None
    if isinstance(a, float) and isinstance(b, float) and math.isnan(a) and math.isnan(b):
        return True
    return type(a) is type(b) and a == b


TYPE_CLASS = {"int": "IntegerType", "float": "FloatType", "bool": "BooleanType",
              "str": "StringType"}


# ------------------------------------------------------------------------------ generator

class RoundGen:
    """Generates the statements of one round against an evolving model copy."""

    def __init__(self, machine, rng, model, files):
        self.m = machine
        self.cfg = machine.cfg
        self.rng = rng
        self.g = model
        self.files = files
        self.stmts = []
        self.chain = []          # open group names as far as the generator knows
        self.chain_valid = False
        self.stopped = None      # Abort raised at statement time
        self.fault_label = None
        self.meta = {}           # path -> generator hints (good range, family)

    # -- plumbing -----------------------------------------------------------------
    def emit(self, st):
        """Apply to the model; keep the statement unless the model says unspecified."""
        trial = self.g.copy()
        try:
            DM.run_statements(trial, [st], self.files)
        except DM.Unspecified:
            return False
        except DM.Abort as a:
            self.stmts.append(st)
            self.stopped = a
            return True
        self.g.__dict__.update(trial.__dict__)
        self.stmts.append(st)
        return True

    def goto(self, chain):
        """Emit group lines so that the next statement is a child of `chain`."""
        if not self.chain_valid:
            common = 0
        else:
            common = 0
            while common < len(chain) and common < len(self.chain) and \
                    chain[common] == self.chain[common]:
                common += 1
        for k in range(common, len(chain)):
            self.emit({"k": "group", "indent": 2 * k, "name": chain[k]})
        self.chain = list(chain)
        self.chain_valid = True
        return 2 * len(chain)

    def pick_chain(self):
        rng = self.rng
        existing = sorted({tuple(p.split(".")[:-1]) for p in self.g.nodes})
        r = rng.random()
        if existing and r < 0.5:
            return list(rng.choice(existing))
        depth = rng.choice([0, 0, 1, 1, 2, 3]) if self.cfg["max_depth"] >= 3 else \
            rng.choice([0, 0, 1, 2][: self.cfg["max_depth"] + 2])
        depth = min(depth, self.cfg["max_depth"])
        return [rng.choice(GROUPS) for _ in range(depth)]

    def fresh_name(self, chain):
        rng = self.rng
        big = self.cfg.get("marathon")
        for _ in range(20):
            n = rng.choice(NAMES)
            if big and rng.random() < 0.5:
                # environments of many nodes need more names than the palette has
                n = rng.choice(["p", "q", "v", "node"]) + str(rng.randint(1, 99))
            p = ".".join(chain + [n])
            clash = p in self.g.nodes or any(q.startswith(p + ".") for q in self.g.nodes) or \
                any(p.startswith(q + ".") for q in self.g.nodes)
            # a node must not share its name with a group of the same parent
            if not clash and n not in GROUPS:
                return n
        return None

    # -- values ---------------------------------------------------------------------
    def number(self, typ, lo=None, hi=None):
        rng = self.rng
        if typ == "int":
            a = int(math.ceil(lo)) if lo is not None else -50
            b = int(math.floor(hi)) if hi is not None else 500
            if a > b:
                a = b
            r = rng.random()
            if lo is None and hi is None and r < 0.2:
                return rng.choice([0, 0, -1, 1, -7])
            return rng.randint(a, b)
        a = lo if lo is not None else -20.0
        b = hi if hi is not None else 4000.0
        r = rng.random()
        if lo is None and hi is None and r < 0.2:
            return rng.choice([0.0, 0.0, -1.0, -2.5, 1e-2])
        x = rng.uniform(a, b)
        return float(f"{x:.4g}") if a <= float(f"{x:.4g}") <= b else x

    def scalar_value(self, typ):
        rng = self.rng
        if typ == "bool":
            return rng.random() < 0.5
        if typ == "str":
            return rng.choice(WORDS)
        return self.number(typ)

    def array_value(self, typ, shape):
        if len(shape) == 1:
            # unquoted array literals end at the first blank: no blanks inside elements
            return [self.scalar_value(typ) if typ != "str" else
                    self.rng.choice([w for w in WORDS if " " not in w])
                    for _ in range(shape[0])]
        return [self.array_value(typ, shape[1:]) for _ in range(shape[0])]

    def unit_for(self, typ):
        rng = self.rng
        if typ not in ("int", "float") or rng.random() < 0.3:
            return None, None
        fams = DM.INT_SAFE if typ == "int" else DM.FAMILY
        fam = rng.choice(sorted(fams))
        return fam, rng.choice(fams[fam])

    def other_unit(self, node, typ):
        """A unit of the node's dimension (another one when possible); custom units too."""
        rng = self.rng
        unit = node["unit"]
        if unit is None:
            return None
        fam = self.family_of(unit)
        cands = []
        if fam:
            pool = DM.INT_SAFE.get(fam, []) if typ == "int" else DM.FAMILY[fam]
            cands += [u for u in pool if u != unit]
        if typ == "float":
            d = self.g.units.dims(unit)
            cands += [c for c, (f, dd) in self.g.units.custom.items() if dd == d and c != unit]
            if not fam:
                # the node's own unit is a custom one: values may come in the standard units
                # of its dimension (the custom unit is then the *target* of the conversion)
                for fam2, us in sorted(DM.FAMILY.items()):
                    try:
                        if self.g.units.dims(us[0]) == d:
                            cands += list(us)
                    except Exception:
                        pass
        return rng.choice(cands) if cands else unit

    @staticmethod
    def family_of(unit):
        for fam, us in DM.FAMILY.items():
            if unit in us:
                return fam
        return None

    def foreign_unit(self, node):
        fam = self.family_of(node["unit"]) if node["unit"] else None
        others = [f for f in sorted(DM.FAMILY) if f != fam]
        return self.rng.choice(DM.FAMILY[self.rng.choice(others)])

    def express(self, node, v_node, unit):
        """Literal that, given in `unit`, equals v_node in the node's own unit."""
        if unit is None or node["unit"] is None or unit == node["unit"] or v_node is None:
            return v_node, (unit if node["unit"] is not None else None)
        if node["unit"] in DM.TEMP and unit in DM.TEMP:
            if node["type"] == "int":
                return v_node, node["unit"]
            return DM.map_leaves(
                v_node, lambda x: float(f"{DM.temp_convert(x, node['unit'], unit):.12g}")), unit
        k = self.g.units.factor(node["unit"]) / self.g.units.factor(unit)
        if node["type"] == "int":
            r = round(k)
            if r >= 1 and abs(k - r) < 1e-9:
                return DM.map_leaves(v_node, lambda x: x * int(r)), unit
            inv = round(1 / k)
            if abs(1 / k - inv) < 1e-9 and all_leaves(v_node, lambda x: x % inv == 0):
                return DM.map_leaves(v_node, lambda x: x // inv), unit
            return v_node, node["unit"]
        return DM.map_leaves(v_node, lambda x: float(f"{x * k:.12g}")), unit

    # -- good values under constraints ------------------------------------------------
    def good_value(self, node):
        """A value (in the node's unit) that satisfies the node's constraints."""
        rng = self.rng
        typ = node["type"]
        meta = self.meta.get(node["path"], {})
        if node["dims"] is not None or isinstance(node["value"], list):
            shape = meta.get("shape") or DM.shape_of(node["value"])
            if not shape:
                # an array node that is none so far: any shape its bounds allow
                shape = [max(lo or 1, 1) if hi is None else max(lo or 0, min(hi, 2))
                         for lo, hi in (node["dims"] or [[2, 2]])]
            return self.array_value(typ, list(shape))
        if node["options"]:
            opts = [o for o in node["options"] if o is not None]
            ok = []
            for o in opts:
                probe = dict(node, value=o)
                try:
                    DM.check_constraints(self.g, probe, margin=1e-3)
                    ok.append(o)
                except (DM.Abort, DM.Unspecified):
                    pass
            if ok:
                return copy.deepcopy(rng.choice(ok))
        if typ in ("int", "float") and node["condition"] is not None:
            lo, hi, closed = cond_range(node, self.g.units)
            for _ in range(30):
                if lo is not None and hi is not None and rng.random() < self.cfg["p_boundary"]:
                    v = rng.choice(closed) if closed else self.number(typ, lo, hi)
                else:
                    a = lo + (hi - lo) * 0.01 if lo is not None and hi is not None else lo
                    b = hi - (hi - lo) * 0.01 if lo is not None and hi is not None else hi
                    v = self.number(typ, a, b)
                probe = dict(node, value=v)
                if DM.eval_condition(self.g, probe, v, margin=1e-3) is True:
                    return v
            return node["value"]
        if typ == "str":
            if node["format"] is not None:
                for rx, good, bad in FORMATS:
                    if rx == node["format"]:
                        cands = good
                        if node["condition"] is not None:
                            cands = [c for c in good if DM.eval_condition(
                                self.g, dict(node, value=c), c) is not False] or good
                        return rng.choice(cands)
            if node["condition"] is not None:
                cands = [w for w in WORDS if DM.eval_condition(self.g, dict(node, value=w), w)]
                if cands:
                    return rng.choice(cands)
            return rng.choice(WORDS)
        if typ == "bool" and node["condition"] is not None:
            for v in (True, False):
                if DM.eval_condition(self.g, dict(node, value=v), v):
                    return v
        return self.scalar_value(typ)

    def bad_value(self, node):
        """A value clearly violating one constraint of the node (None if it has none)."""
        rng = self.rng
        typ = node["type"]
        meta = self.meta.get(node["path"], {})
        kinds = []
        if node["options"]:
            kinds.append("option")
        if node["condition"] is not None and not isinstance(node["value"], list):
            kinds.append("condition")
        if node["format"] is not None:
            kinds.append("format")
        if not kinds:
            return None, None
        kind = rng.choice(kinds)
        for _ in range(40):
            if kind == "format":
                v = rng.choice([b for rx, g, b in FORMATS if rx == node["format"]][0])
            elif kind == "option":
                if typ == "str":
                    v = rng.choice([w for w in WORDS if w not in node["options"]] or ["zzz"])
                else:
                    base = rng.choice([o for o in node["options"] if o is not None])
                    v = base + rng.choice([1, -1, 3]) if typ == "int" else \
                        float(f"{base * rng.choice([1.01, 0.9, 2.0]) + rng.choice([0, 0.5]):.6g}")
            else:
                lo, hi, _ = cond_range(node, self.g.units)
                if typ in ("int", "float") and lo is not None and hi is not None:
                    span = max(hi - lo, 1)
                    v = self.number(typ, hi + 0.05 * span + 1, hi + 2 * span + 2) \
                        if rng.random() < 0.5 else self.number(typ, lo - 2 * span - 2,
                                                               lo - 0.05 * span - 1)
                    core = node["condition"][1] if node["condition"][0] == "or" else node["condition"]
                    if rng.random() < 0.3 and core[0] == "and":
                        # exactly on an open boundary: '>' and '<' exclude it
                        strict = [x for x, c in ((lo, core[1]), (hi, core[2]))
                                  if c[0] == "cmp" and c[1] in (">", "<")]
                        if strict:
                            v = rng.choice(strict)
                            if typ == "int":
                                v = int(v) if float(v).is_integer() else v
                elif typ == "str":
                    v = rng.choice(WORDS)
                elif typ == "bool":
                    v = rng.random() < 0.5
                else:
                    v = self.number(typ)
            probe = dict(node, value=v)
            try:
                DM.check_constraints(self.g, probe, margin=1e-3)
            except DM.Abort:
                return v, kind       # clearly off, not merely inside the tolerance band
            except DM.Unspecified:
                pass
        return None, None

    # -- statements -------------------------------------------------------------------
    def s_definition(self, declare=False):
        rng, cfg = self.rng, self.cfg
        chain = self.pick_chain()
        name = self.fresh_name(chain)
        if name is None:
            return
        indent = self.goto(chain)
        typ = rng.choices(["float", "int", "bool", "str"], cfg["type_weights"])[0]
        st = {"k": "def", "indent": indent, "name": name, "type": typ}
        if typ == "int" and rng.random() < cfg["p_subtype"]:
            st["bits"] = rng.choice(["16", "32", "64"])
            st["unsigned"] = rng.random() < 0.4
        if typ == "float" and rng.random() < cfg["p_subtype"]:
            st["bits"] = rng.choice(["32", "64", "128"])
        fam, unit = self.unit_for(typ)
        if unit is None and typ == "float" and self.g.units.custom and rng.random() < 0.3:
            unit = rng.choice(sorted(self.g.units.custom))
        st["unit"] = unit
        shape = None
        if rng.random() < cfg["p_array"] and not declare:
            nd = rng.choice([1, 1, 2])
            shape = [rng.randint(1, 3) for _ in range(nd)]
            dims = []
            for n in shape:
                r = rng.random()
                if r < 0.12:
                    dims.append([None, None])          # [:]
                elif r < 0.4:
                    dims.append([n, n])
                elif r < 0.6:
                    dims.append([max(0, n - 1), n + 1])
                elif r < 0.8:
                    dims.append([None, n + rng.randint(0, 2)])
                else:
                    dims.append([max(0, n - rng.randint(0, 1)), None])
            st["dims"] = dims
        if declare:
            st["declare"] = True
            st["value"] = None
        elif shape:
            st["value"] = self.array_value(typ, shape)
            if st.get("unsigned"):
                st["value"] = DM.map_leaves(st["value"], abs)
        else:
            v = self.scalar_value(typ)
            if rng.random() < cfg["p_none"]:
                v = None
            if st.get("unsigned") and v is not None:
                v = abs(v)
            st["value"] = v
        if rng.random() < cfg.get("p_noise", 0):
            st["comment"] = rng.choice(["note", "see docs", "unit: cm", "= 5", "a b c"])
        if not self.emit(st) or self.stopped:
            return
        path = ".".join(chain + [name])
        self.meta[path] = {"shape": shape, "family": fam}
        if rng.random() < cfg.get("p_noise", 0):
            # annotations belong to the node but carry no value or constraint
            if rng.random() < 0.5:
                self.emit({"k": "tags", "indent": indent + 2,
                           "tags": rng.sample(["x", "y", "sim", "io"], 2)})
            else:
                self.emit({"k": "description", "indent": indent + 2,
                           "text": rng.choice(["width of the box", "a flag", "see manual"])})
        if getattr(self, "bad_condition", None) and not shape and not declare \
                and st.get("value") is not None:
            kind, self.bad_condition = self.bad_condition, None
            if kind == "dimension" and not (typ == "float" and unit):
                kind = "reference"
            if kind == "reference":
                expr = ["cmpref", rng.choice(["<", ">", "=="]), "nosuch"]
            else:
                ou = "s" if self.g.units.dims(unit) != self.g.units.dims("s") else "m"
                expr = ["cmp", rng.choice(["<", ">="]), 5.0, ou]
            self.fault_label = "condition_unevaluable"
            self.emit({"k": "condition", "indent": indent + 2, "expr": expr, "unevaluable": kind})
            return
        # properties directly after the new node
        if cfg["constraints"] and not shape and (declare or st["value"] is not None
                                                 or rng.random() < 0.3):
            self.s_properties(path, indent + 2)
        pend = getattr(self, "pending_mods", None)
        if pend:
            self.pending_mods = []
            for m_ in pend:
                if self.stopped:
                    break
                self.chain_valid = False
                self.emit(m_)
            return
        if not declare and rng.random() < cfg["p_constant"] and not self.stopped:
            self.emit({"k": "constant", "indent": indent + 2})

    def s_properties(self, path, indent):
        rng, cfg = self.rng, self.cfg
        node = self.g.nodes[path]
        if node["unit"] in DM.TEMP:
            return
        typ = node["type"]
        v = node["value"]
        meta = self.meta.setdefault(path, {})
        # condition first: it defines the good range the options are drawn from
        if rng.random() < cfg["p_condition"]:
            expr = None
            earlier = None
            if typ in ("int", "float"):
                c = v if isinstance(v, (int, float)) and not isinstance(v, bool) else 10
                span = rng.choice([1, 5, 50]) if typ == "int" else rng.choice([0.5, 5.0, 100.0])
                # keep the interval much wider than the 1e-3 tolerance band of its boundaries
                span = max(span, int(math.ceil(abs(c) * 0.02))) if typ == "int" else \
                    max(span, float(f"{abs(c) * 0.02:.3g}"))
                lo = c - span * rng.randint(1, 3)
                hi = c + span * rng.randint(1, 3)
                if typ == "float":
                    lo, hi = float(f"{lo:.6g}"), float(f"{hi:.6g}")
                cu = node["unit"] if rng.random() < 0.6 else None
                llo, lhi = lo, hi
                if typ == "float" and node["unit"] is not None and rng.random() < 0.4:
                    # bounds written in another unit of the node's dimension
                    cu = self.other_unit(node, typ)
                    llo, _ = self.express(node, lo, cu)
                    lhi, _ = self.express(node, hi, cu)
                ops = rng.choice([(">=", "<="), (">", "<"), (">=", "<"), (">", "<=")])
                pal = self.palette_bounds(node, c) if rng.random() < cfg["p_palette"] else None
                if pal is not None:
                    # bounds from a small palette of round numbers in a finer unit: the same
                    # literal texts recur across nodes, rounds and runs
                    cu, llo, lhi, lo, hi = pal
                    if typ == "int":
                        ops = (">", "<=")
                expr = ["and", ["cmp", ops[0], llo, cu], ["cmp", ops[1], lhi, cu]]
                closed = []
                if ops[0] == ">=":
                    closed.append(lo)
                if ops[1] == "<=":
                    closed.append(hi)
                if rng.random() < 0.2:
                    # an earlier, looser !condition on the same node (an alternative that holds
                    # for every large value); the one emitted below comes second.  Whether a
                    # later condition replaces the earlier one or adds to it, a value that
                    # breaks the later one is refused, and one that satisfies both is accepted
                    far = self.express(node, lo - span * 7, cu)[0] if cu not in (None, node["unit"]) \
                        else lo - span * 7
                    earlier = ["or", ["cmp", ops[0], llo, cu], ["cmp", "==", far, cu]]
                if rng.random() < 0.25 and pal is None:
                    extra = hi + span * 4
                    lextra = self.express(node, extra, cu)[0] if cu not in (None, node["unit"]) \
                        else extra
                    expr = ["or", expr, ["cmp", "==", lextra, cu]]
                    closed.append(extra)
            elif typ == "str" and cfg["nonnumeric_conditions"]:
                a, b = rng.sample(WORDS, 2)
                choices = [a, b] + ([v] if isinstance(v, str) else [])
                expr = ["cmp", "==", choices[0], None]
                for w in choices[1:]:
                    expr = ["or", expr, ["cmp", "==", w, None]]
            elif typ == "bool" and cfg["nonnumeric_conditions"]:
                expr = ["cmp", "==", bool(v) if v is not None else True, None]
            if typ in ("int", "float") and isinstance(v, (int, float)) and not isinstance(v, bool) \
                    and rng.random() < 0.3:
                # the bound is another node ('{?} <= {?box.limit}'): what holds when this node
                # is validated can stop holding when only the *other* node is assigned later
                others = [p_ for p_, n_ in self.g.nodes.items()
                          if p_ != path and n_["type"] == typ and not isinstance(n_["value"], (list, bool))
                          and n_["value"] is not None and (n_["unit"] is None) == (node["unit"] is None)
                          and (n_["unit"] is None or self.g.units.dims(n_["unit"]) ==
                               self.g.units.dims(node["unit"])) and not n_.get("imported")
                          and n_["unit"] not in DM.TEMP]
                if others:
                    op_ = rng.choice(others)
                    probe = dict(node, condition=["cmpnode", "<", op_])
                    lt = DM.eval_condition(self.g, probe, v, margin=2e-2)
                    gt = DM.eval_condition(self.g, dict(node, condition=["cmpnode", ">", op_]), v,
                                           margin=2e-2)
                    if lt is True:
                        expr = ["cmpnode", rng.choice(["<", "<="]), op_]
                    elif gt is True:
                        expr = ["cmpnode", rng.choice([">", ">="]), op_]
            if expr is not None:
                if earlier is not None and expr[0] in ("and", "or"):
                    self.emit({"k": "condition", "indent": indent, "expr": earlier})
                    self.m.stats.probe("second_condition_on_a_node")
                if not self.stopped:
                    self.emit({"k": "condition", "indent": indent, "expr": expr})
        if self.stopped:
            return
        if typ in ("int", "float") and v is not None and not isinstance(v, list) \
                and rng.random() < cfg["p_options"] * 0.3:
            # options taken from other nodes: '= {?limit}' per line, '!options {?sizes}' as list
            others = [(p, n) for p, n in self.g.nodes.items()
                      if p != path and n["type"] == typ and n["value"] is not None
                      and (n["unit"] is None) == (node["unit"] is None)
                      and (n["unit"] is None or self.g.units.dims(n["unit"]) ==
                           self.g.units.dims(node["unit"]))]
            scal = [(p, n) for p, n in others if not isinstance(n["value"], list)]
            arrs = [(p, n) for p, n in others if isinstance(n["value"], list)
                    and n["value"] and not isinstance(n["value"][0], list)]
            done = False
            if arrs and rng.random() < 0.4:
                p2, n2 = rng.choice(arrs)
                self.emit({"k": "options", "indent": indent, "ref": {"src": None, "query": p2},
                           "unit": None})
                done = True
            elif scal:
                for p2, n2 in rng.sample(scal, min(len(scal), rng.randint(1, 2))):
                    self.emit({"k": "option", "indent": indent,
                               "ref": {"src": None, "query": p2}, "unit": None})
                    if self.stopped:
                        return
                done = True
            if done and not self.stopped:
                # the node's own value as a literal option, so that the definition stands
                self.emit({"k": "option", "indent": indent, "value": v, "unit": node["unit"]})
                return
        if typ in ("int", "float", "str") and rng.random() < cfg["p_options"]:
            n = rng.randint(1, 4)
            opts = []
            for _ in range(n):
                if typ == "str":
                    opts.append(rng.choice(WORDS))
                else:
                    lo, hi, _ = cond_range(node, self.g.units)
                    opts.append(self.number(typ, lo, hi))
            if v is not None and not isinstance(v, list) and rng.random() < 0.85:
                opts.insert(rng.randrange(len(opts) + 1), v)
            if typ == "str" and node["format"] is None:
                pass
            if rng.random() < 0.5 and not any(isinstance(o, str) and " " in o for o in opts):
                ou = self.other_unit(node, typ) if rng.random() < 0.5 else node["unit"]
                vals = [self.express(node, o, ou)[0] if ou else o for o in opts]
                # express may fall back to the node unit for ints: recompute uniformly
                if typ == "int" and ou and ou != node["unit"]:
                    ex = [self.express(node, o, ou) for o in opts]
                    if all(u == ou for _, u in ex):
                        vals = [x for x, _ in ex]
                    else:
                        vals, ou = opts, node["unit"]
                self.emit({"k": "options", "indent": indent, "values": vals, "unit": ou})
                if typ in ("int", "float") and node["unit"] is not None and not self.stopped \
                        and rng.random() < 0.35:
                    # a second clause: the *same numbers* in a coarser unit (documented: several
                    # !options clauses, each with its own unit) - other options, not duplicates
                    fam = self.family_of(node["unit"])
                    pool = (DM.INT_SAFE.get(fam, []) if typ == "int" else DM.FAMILY.get(fam, [])) \
                        if fam and fam != "temperature" else []
                    fn = self.g.units.factor(node["unit"]) if pool else 0
                    coarser = [u_ for u_ in pool if self.g.units.factor(u_) > fn * 1.5
                               and u_ != (ou or node["unit"])]
                    if coarser:
                        cu2 = rng.choice(coarser)
                        self.emit({"k": "options", "indent": indent, "values": list(vals),
                                   "unit": cu2})
                        if not self.stopped and rng.random() < 0.6 and node["condition"] is None:
                            # ... and the node takes one of them, written as in that clause
                            self.pending_mods = getattr(self, "pending_mods", [])
                            self.pending_mods.append({"k": "mod", "indent": 0, "name": path,
                                                      "value": rng.choice(list(vals)), "unit": cu2})
            else:
                for o in opts:
                    ou = self.other_unit(node, typ) if rng.random() < 0.4 else node["unit"]
                    lit, ou = self.express(node, o, ou)
                    self.emit({"k": "option", "indent": indent, "value": lit, "unit": ou})
                    if self.stopped:
                        return
        if typ == "str" and rng.random() < cfg["p_format"] and not self.stopped:
            fits = [f for f in FORMATS if isinstance(v, str) and v in f[1]]
            f = rng.choice(fits) if fits and rng.random() < 0.85 else rng.choice(FORMATS)
            self.emit({"k": "format", "indent": indent, "regex": f[0]})

    PALETTE = [15, 50, 150, 250, 750, 1500, 2500, 7500, 15000, 150000, 1500000]

    def palette_bounds(self, node, c):
        """(unit, lo literal, hi literal, lo, hi in node unit) bracketing c clearly, with the
        literals taken from PALETTE in a finer unit of the node's family; None if no fit."""
        if node["unit"] is None or not isinstance(c, (int, float)) or isinstance(c, bool) or c <= 0:
            return None
        fam = self.family_of(node["unit"])
        pool = DM.INT_SAFE.get(fam, []) if node["type"] == "int" else DM.FAMILY.get(fam, [])
        fn = self.g.units.factor(node["unit"])
        finer = [u for u in pool if self.g.units.factor(u) < fn]
        if not finer:
            return None
        cu = self.rng.choice(finer)
        k = fn / self.g.units.factor(cu)          # node unit -> cu
        x = c * k
        below = [p for p in self.PALETTE if p < x * 0.9]
        above = [p for p in self.PALETTE if p > x * 1.1]
        if not below or not above:
            return None
        llo, lhi = below[-1], above[0]
        return cu, llo, lhi, llo / k, lhi / k

    def s_modification(self, fault=None):
        rng, cfg = self.rng, self.cfg
        paths = [p for p, n in self.g.nodes.items()]
        if not paths:
            return
        path = rng.choice(paths)
        node = self.g.nodes[path]
        if node["constant"] and fault != "constant":
            others = [p for p in paths if not self.g.nodes[p]["constant"]]
            if not others:
                return
            path = rng.choice(others)
            node = self.g.nodes[path]
        typ = node["type"]
        parts = path.split(".")
        # where to write it: full path at top level, or nested below its groups
        if rng.random() < 0.5 or len(parts) == 1:
            indent, name = 0, path
            self.chain_valid = False
        else:
            indent = self.goto(parts[:-1])
            name = parts[-1]
        st = {"k": "mod", "indent": indent, "name": name}
        if rng.random() < cfg["p_typed_mod"]:
            st = {"k": "def", "indent": indent, "name": name, "type": typ,
                  "bits": node["bits"], "unsigned": node["unsigned"],
                  "dims": copy.deepcopy(node["dims"])}
        v = self.good_value(node)
        unit = None
        none_unit = False
        if fault == "bad_value" and rng.random() < 0.25 and not node["declared"] and \
                node["dims"] is None and (node["options"] or node["condition"] is not None
                                          or node["format"] is not None):
            # none is no option, makes no condition true and matches no format
            v = None
            self.fault_label = "constraint_none"
        elif fault == "bad_value":
            bv, kind = self.bad_value(node)
            if bv is None:
                return
            v = bv
            self.fault_label = "constraint_" + kind
        elif rng.random() < cfg["p_none"] and (not node["declared"] or node.get("had_real_value")) \
                and not (
                node["options"] or node["condition"] is not None or node["format"] is not None):
            v = None
            none_unit = rng.random() < 0.3
        if node["unsigned"] and v is not None and not isinstance(v, (str, bool)):
            v = DM.map_leaves(v, abs)
        if v is None and none_unit and typ in ("int", "float") and node["unit"] is not None \
                and node["dims"] is None:
            unit = self.other_unit(node, typ)      # 'a = none cm': still no value, unit kept
        # a value sitting exactly on a boundary (closed: accepted, open: refused) is written in
        # the node's own unit, otherwise the conversion decides on which side it lands
        _lo, _hi, _closed = cond_range(node, self.g.units)
        on_boundary = typ in ("int", "float") and not isinstance(v, list) and v is not None \
            and (v in _closed or v == _lo or v == _hi)
        if typ in ("int", "float") and v is not None:
            r = rng.random()
            if on_boundary:
                unit = node["unit"] if rng.random() < 0.5 else None
            elif node["unit"] is not None and r < cfg["p_other_unit"]:
                v, unit = self.express(node, v, self.other_unit(node, typ))
            elif node["unit"] is not None and r < cfg["p_other_unit"] + 0.25:
                unit = node["unit"]
        if fault == "other_type":
            t2 = rng.choice([t for t in ("float", "int", "bool", "str") if t != typ])
            st = {"k": "def", "indent": indent, "name": name, "type": t2,
                  "value": self.scalar_value(t2), "unit": None}
            self.fault_label = "other_type"
            self.emit(st)
            return
        if fault == "other_dimension":
            if typ not in ("int", "float"):
                return
            unit = self.foreign_unit(node)
            v = self.scalar_value(typ) if not isinstance(v, list) else v
            if v is None:
                v = 1 if typ == "int" else 1.0
            self.fault_label = "other_dimension" if node["unit"] else "unit_on_unitless"
        if fault == "constant":
            cands = [p for p in paths if self.g.nodes[p]["constant"]]
            if not cands:
                return
            path = rng.choice(cands)
            node = self.g.nodes[path]
            st = {"k": "mod", "indent": 0, "name": path}
            if rng.random() < 0.5:
                # the typed form of an assignment must be refused just the same
                st = {"k": "def", "indent": 0, "name": path, "type": node["type"],
                      "bits": node["bits"], "unsigned": node["unsigned"],
                      "dims": copy.deepcopy(node["dims"])}
            v = self.scalar_value(node["type"]) if node["dims"] is None else \
                self.good_value(node)
            unit = None
            self.chain_valid = False
            self.fault_label = "constant"
        if fault is None and typ == "int" and str(node["bits"]) == "64" and v is not None \
                and not isinstance(v, list) and not node["options"] and node["condition"] is None \
                and rng.random() < 0.35:
            # integers beyond 2**53: exact in a 64-bit node, not in a float on the way there
            v = rng.choice(BIG_INTS + ([18446744073709551557] if node["unsigned"] else []))
            if node["unsigned"]:
                v = abs(v)
            unit = node["unit"] if (node["unit"] is not None and rng.random() < 0.5) else None
            self.m.stats.probe("integer_beyond_2**53")
        if fault is None and typ in ("int", "float") and isinstance(v, (int, float)) \
                and not isinstance(v, bool) and abs(v) < 2 ** 53 and not on_boundary \
                and unit is not None and not unit.startswith("[") and unit not in DM.TEMP \
                and cfg["prop"] in ("C14", "C17") and st.get("k") == "def" \
                and not self.g.units.custom and rng.random() < 0.25:
            # the value is written as an expression: the assignment is an assignment all the
            # same, also when the result is zero (operands in the statement's own unit; what
            # expressions compute in general is another property's business).  Typed form only:
            # an untyped line ignores the expression altogether on the pinned tree, an
            # environment with custom units refuses every expression and so does a node without
            # unit (all noted in DESIGN 10.1, all C18's)
            free = not node["options"] and node["condition"] is None
            x = abs(self.number(typ))
            if free and rng.random() < 0.5:
                # (zero operands: 'x cm - x cm' goes through base units and may come back as
                # 1e-13 - rounding of expressions is not this property's subject)
                z = 0 if typ == "int" else 0.0
                st["expr"] = [z, rng.choice(["+", "-"]), z]
                v = z
            elif v >= 0:
                b = min(x, v) if typ == "int" else float(f"{min(x, v) / 2:.4g}")
                a = v - b
                if a >= 0 and a + b == v:
                    st["expr"] = [a, "+", b]
            if st.get("expr"):
                self.m.stats.probe("value_written_as_an_expression")
        st["value"] = v
        st["unit"] = unit
        if rng.random() < cfg.get("p_noise", 0):
            st["comment"] = rng.choice(["changed", "was 3", "TODO", "x = 1"])
        self.emit(st)
        if rng.random() < cfg.get("p_noise", 0) * 0.5 and not self.stopped:
            self.emit({"k": "blank"})

    def s_unit(self):
        rng = self.rng
        name = rng.choice(["ell", "tick", "blob", "quux", "span", "lump"])
        if f"[{name}]" in self.g.units.custom:
            return
        if self.cfg.get("refs") and rng.random() < 0.3:
            # the size of the unit is the current value of a node: '$unit ell = {?a}' adopts
            # the node's unit, '$unit ell = {?a} mm' keeps its own
            cands = [p_ for p_, n_ in self.g.nodes.items()
                     if n_["type"] in ("int", "float") and n_["unit"] is not None
                     and isinstance(n_["value"], (int, float)) and not isinstance(n_["value"], bool)
                     and n_["value"] > 0 and not n_["unit"].startswith("[")
                     and n_["unit"] not in DM.TEMP]
            arrs = [p_ for p_, n_ in self.g.nodes.items()
                    if n_["type"] in ("int", "float") and n_["unit"] is not None
                    and isinstance(n_["value"], list) and n_["value"]
                    and all(isinstance(x, (int, float)) and not isinstance(x, bool) and x > 0
                            for x in n_["value"])
                    and not n_["unit"].startswith("[") and n_["unit"] not in DM.TEMP]
            if arrs and rng.random() < 0.5:
                # one element of an array as the size of the unit: '$unit step = {?steps}[2]'
                rp = rng.choice(arrs)
                i = rng.randrange(len(self.g.nodes[rp]["value"]))
                self.emit({"k": "unit", "indent": 0, "name": name, "value": None, "unit": None,
                           "ref": {"src": None, "query": rp}, "slice": [[i, i]]})
                return
            if cands:
                rp = rng.choice(cands)
                own = rng.choice([None, None, "mm", "s", "g"])
                self.emit({"k": "unit", "indent": 0, "name": name, "value": None, "unit": own,
                           "ref": {"src": None, "query": rp}})
                return
        base = rng.choice(["m", "cm", "s", "g", "J", "km/s"])
        if self.g.units.custom and rng.random() < 0.25:
            base = rng.choice(sorted(self.g.units.custom))
        self.emit({"k": "unit", "indent": 0, "name": name,
                   "value": rng.choice([2, 0.5, 10, 12.5, 1e3]), "unit": base})
        self.chain_valid = False if False else self.chain_valid

    # -- references (C17) ----------------------------------------------------------------
    def ref_candidates(self):
        """[(src or None, env)] domains that can be queried."""
        out = [(None, self.g)]
        for name, s in self.g.sources.items():
            if s["kind"] == "dip":
                out.append((name, s["env"]))
        return out

    def s_source(self):
        rng = self.rng
        files = sorted(self.files)
        if not files:
            return
        path = rng.choice(files)
        name = rng.choice(["remote", "lib", "defs", "txt", "other"])
        if name in self.g.sources:
            return
        self.emit({"k": "source", "indent": 0, "name": name, "path": path})

    def s_injection(self, fault=None):
        rng, cfg = self.rng, self.cfg
        doms = [(s, e) for s, e in self.ref_candidates() if e.nodes]
        text_sources = [n for n, s in self.g.sources.items() if s["kind"] == "text"]
        if fault == "missing_source":
            ref = {"src": "nosuch", "query": "a"}
            rnode = None
            self.fault_label = "missing_source"
        elif fault == "select_none":
            ref = {"src": None, "query": "no.such.node"}
            rnode = None
            self.fault_label = "select_none"
        elif fault == "self_reference":
            # {?} means "this node" only inside its own condition; anywhere else it selects
            # no node, also when an earlier parse of the chain ended on a conditioned node
            ref = {"src": None, "query": ""}
            rnode = None
            self.fault_label = "self_reference_outside_condition"
        elif fault == "select_several":
            # a request that selects several nodes: all nodes, or the children of a group
            cands = []
            for src, dom in doms:
                if len(dom.nodes) >= 2:
                    cands.append({"src": src, "query": "*"})
                groups = {}
                for p in dom.nodes:
                    parts = p.split(".")
                    for k in range(1, len(parts)):
                        groups.setdefault(".".join(parts[:k]), 0)
                        groups[".".join(parts[:k])] += 1
                cands += [{"src": src, "query": g + ".*"} for g, n in sorted(groups.items())
                          if n >= 2]
            if not cands:
                return
            ref = rng.choice(cands)
            rnode = None
            self.fault_label = "select_several"
        elif text_sources and rng.random() < (0.5 if any(
                self.g.sources[t]["text"].startswith("[") for t in text_sources) else 0.25):
            src = rng.choice(text_sources)
            chain = self.pick_chain()
            name = self.fresh_name(chain)
            if name is None:
                return
            indent = self.goto(chain)
            text = self.g.sources[src]["text"]
            st = {"k": "inject", "indent": indent, "name": name, "type": "str",
                  "ref": {"src": src, "query": None}, "unit": None}
            try:
                import json as _json
                parsed = _json.loads(text)
            except ValueError:
                parsed = None
            if isinstance(parsed, list) and parsed and rng.random() < 0.8:
                # an array kept in a text file, taken whole or cut by a slice
                flat = not isinstance(parsed[0], list)
                typ = "int" if DM.all_leaves_int(parsed) and rng.random() < 0.6 else "float"
                fam, unit = self.unit_for(typ)
                st.update(type=typ, unit=unit)
                if flat and rng.random() < 0.6:
                    n = len(parsed)
                    if rng.random() < 0.4:
                        i = rng.randrange(n)
                        st["slice"] = [[i, i]]
                    else:
                        a = rng.randrange(n - 1)
                        b = rng.randint(a + 1, n)
                        st["slice"] = [[a, b]]
                        st["dims"] = rng.choice([[[b - a, b - a]], [[None, n]], [[1, None]]])
                else:
                    sh = DM.shape_of(parsed)
                    st["dims"] = [[k, k] for k in sh]
            elif isinstance(parsed, (int, float)) and not isinstance(parsed, bool) \
                    and rng.random() < 0.5:
                st.update(type="float")
            self.emit(st)
            if st.get("slice") and not self.stopped and rng.random() < 0.6:
                # the host is assigned again later: the slice of its definition is history
                path = ".".join(chain + [name])
                node = self.g.nodes.get(path)
                if node is not None and node["value"] is not None:
                    v = self.array_value(node["type"], list(DM.shape_of(node["value"]))) \
                        if isinstance(node["value"], list) else self.number(node["type"])
                    self.emit({"k": "mod", "indent": 0, "name": path, "value": v, "unit": None})
                    self.chain_valid = False
            return
        else:
            if not doms:
                return
            src, dom = rng.choice(doms)
            paths = [p for p, n in dom.nodes.items() if n["value"] is not None or n["has_value"]]
            if not paths:
                return
            rp = rng.choice(paths)
            rnode = dom.nodes[rp]
            ref = {"src": src, "query": rp}
        typ = rnode["type"] if rnode else "float"
        if typ == "mod":
            # untyped line of a modification file: the host decides the type
            typ = "float" if rnode["unit"] is not None or not isinstance(rnode["value"], int) \
                else rng.choice(["int", "float"])
        # host: new typed node, or an existing node of the same type
        hosts = [p for p, n in self.g.nodes.items()
                 if n["type"] == typ and not n["constant"] and n["dims"] is None
                 and not isinstance(n["value"], list)
                 and (rnode is None or (n["unit"] is None) == (rnode["unit"] is None))]
        as_mod = hosts and rng.random() < 0.4 and rnode is not None and \
            not isinstance(rnode["value"], list)
        array_mod = None
        if rnode is not None and isinstance(rnode["value"], list) and rng.random() < 0.35:
            # an existing array (or scalar) node assigned a slice of another array
            ah = [p for p, n in self.g.nodes.items()
                  if n["type"] == typ and not n["constant"] and p != ref["query"]
                  and (n["unit"] is None) == (rnode["unit"] is None)
                  and (n["dims"] is not None or not isinstance(n["value"], list))]
            if ah:
                array_mod = rng.choice(ah)
        sl = None
        dims = None
        if rnode is not None and isinstance(rnode["value"], list) and rnode["value"]:
            sh = DM.shape_of(rnode["value"])
            if rng.random() < 0.6:
                if len(sh) == 1:
                    if rng.random() < 0.5:
                        i = rng.randrange(sh[0])
                        sl = [[i, i]]
                    else:
                        a = rng.randrange(sh[0])
                        sl = [[a, None]]
                        dims = [[sh[0] - a, sh[0] - a]]
                else:
                    i, j = rng.randrange(sh[0]), rng.randrange(sh[1])
                    r2 = rng.random()
                    if r2 < 0.4:
                        sl = [[None, None], [j, j]]              # a column
                        dims = [[sh[0], sh[0]]]
                    elif r2 < 0.6:
                        sl = [[i, i], [j, j]]                    # one element
                        dims = None
                    elif r2 < 0.8:
                        sl = [[i, i], [None, None]]              # a row
                        dims = [[sh[1], sh[1]]]
                    else:
                        sl = [[i, i], [j, None]]                 # the tail of a row
                        dims = [[sh[1] - j, sh[1] - j]]
            else:
                dims = [[n, n] for n in sh]
        if rnode is not None and isinstance(rnode["value"], str) and rng.random() < cfg["p_str_slice"]:
            n = len(rnode["value"])
            a = rng.randrange(n) if n else 0
            sl = [[a, None]] if rng.random() < 0.5 else [[None, max(1, a)]]
        unit = None
        if typ in ("int", "float") and rnode is not None and rnode["unit"] is not None \
                and rng.random() < 0.4:
            unit = self.other_unit(rnode, typ) if src is None else \
                rng.choice(DM.FAMILY.get(self.family_of(rnode["unit"]) or "length"))
            if typ == "int":
                unit = rnode["unit"]
        if array_mod is not None and src is None:
            host = self.g.nodes[array_mod]
            if host["unit"] is not None and self.g.units.dims(host["unit"]) != \
                    self.g.units.dims(rnode["unit"]):
                return
            if typ == "int" and host["unit"] != rnode["unit"]:
                return
            self.emit({"k": "inject", "indent": 0, "name": array_mod, "ref": ref, "unit": None,
                       "slice": sl})
            self.chain_valid = False
            return
        if fault == "other_dimension":
            # the host states no unit and adopts the referenced node's: of another dimension
            # than its own definition, so the usual conversion has to refuse it
            if typ != "float" or rnode is None or rnode["unit"] is None or \
                    isinstance(rnode["value"], list):
                return
            bad = [p for p in hosts if self.g.nodes[p]["unit"] is not None and
                   self.g.units.dims(self.g.nodes[p]["unit"]) != dom.units.dims(rnode["unit"])]
            if not bad:
                return
            self.fault_label = "inject_other_dimension"
            self.chain_valid = False
            self.emit({"k": "inject", "indent": 0, "name": rng.choice(bad), "ref": ref,
                       "unit": None, "slice": None})
            return
        if as_mod:
            path = rng.choice(hosts)
            host = self.g.nodes[path]
            if host["unit"] is not None and rnode["unit"] is not None and \
                    self.g.units.dims(host["unit"]) != (dom.units.dims(rnode["unit"])):
                return
            if typ == "int":
                unit = None if rnode["unit"] == host["unit"] else None
                if rnode["unit"] != host["unit"]:
                    return
            st = {"k": "inject", "indent": 0, "name": path, "ref": ref, "unit": unit, "slice": sl}
            self.chain_valid = False
            # constraints of the host: only inject when the result satisfies them (unless
            # the fault budget says otherwise) -- checked by the model at commit anyway
        else:
            chain = self.pick_chain()
            name = self.fresh_name(chain)
            if name is None:
                return
            indent = self.goto(chain)
            st = {"k": "inject", "indent": indent, "name": name, "type": typ, "ref": ref,
                  "unit": unit, "slice": sl, "dims": dims}
        self.emit(st)

    def s_compare(self):
        """flag bool = ("{?a} > {?b}") between two stored numeric nodes of one dimension."""
        rng = self.rng
        nums = [p for p, n in self.g.nodes.items() if n["type"] in ("int", "float")
                and n["value"] is not None and not isinstance(n["value"], list)
                and n["unit"] not in DM.TEMP]
        if len(nums) < 2:
            return
        a = rng.choice(nums)
        na = self.g.nodes[a]
        same = [p for p in nums if p != a and self.g.nodes[p]["type"] == na["type"]
                and (self.g.nodes[p]["unit"] is None) == (na["unit"] is None)
                and (na["unit"] is None or self.g.units.dims(self.g.nodes[p]["unit"]) ==
                     self.g.units.dims(na["unit"]))]
        if not same:
            return
        b = rng.choice(same)
        chain = self.pick_chain()
        name = self.fresh_name(chain)
        if name is None:
            return
        indent = self.goto(chain)
        self.emit({"k": "cmp_expr", "indent": indent, "name": name, "left": a, "right": b,
                   "cmp": rng.choice(["<", ">", "<=", ">="])})

    def s_function(self, fault=None):
        rng = self.rng
        chain = self.pick_chain()
        name = self.fresh_name(chain)
        if name is None:
            return
        kind = rng.choice(["const", "const", "scribble", "double", "mutate", "reenter"])
        if fault == "callback_raises":
            kind = "raise"
            self.fault_label = "callback_raises"
        st = {"k": "fn", "name": name, "fname": f"fn{len(self.stmts)}_{rng.randint(0, 99)}"}
        if kind == "double":
            cands = [p for p, n in self.g.nodes.items()
                     if n["type"] == "float" and isinstance(n["value"], float) and n["value"] != 0]
            if not cands:
                kind = "const"
            else:
                p = rng.choice(cands)
                st.update(type="float", unit=self.g.nodes[p]["unit"], fn={"kind": "double", "path": p})
        if kind in ("const", "scribble", "raise", "mutate", "reenter"):
            typ = rng.choice(["float", "int", "str", "bool"])
            v = self.scalar_value(typ)
            if v is None or v == "":
                v = {"float": 2.5, "int": 3, "str": "dog", "bool": True}[typ]
            elif typ in ("float", "int") and rng.random() < 0.25:
                v = 0.0 if typ == "float" else 0   # a function may well return zero
            fam, unit = self.unit_for(typ)
            st.update(type=typ, unit=unit, fn={"kind": kind, "value": v})
        st["indent"] = self.goto(chain)
        self.emit(st)

    def s_import(self, fault=None):
        rng = self.rng
        doms = [(s, e) for s, e in self.ref_candidates() if e.nodes]
        if not doms:
            return
        src, dom = rng.choice(doms)
        paths = list(dom.nodes)
        r = rng.random()
        if fault == "select_none":
            q = rng.choice(["zz.*", "nosuch", "no.such.*"])
            self.fault_label = "import_none"
        elif r < 0.35:
            q = rng.choice(paths)
        elif r < 0.8:
            groups = sorted({".".join(p.split(".")[:k]) for p in paths
                             for k in range(1, len(p.split(".")))})
            if not groups:
                q = rng.choice(paths)
            else:
                q = rng.choice(groups) + ".*"
        else:
            q = "*"
        # importing position: below a fresh group (paths cannot collide), or now and then
        # below a group that an earlier import filled: nodes that exist already are then
        # *assigned* the imported value (converted into their own unit)
        gname = None
        earlier = sorted({p.split(".")[0] for p in self.g.nodes
                          if p.split(".")[0][:-1] in ("copy", "bowl", "plate", "bag", "imp")})
        if earlier and fault is None and rng.random() < 0.3:
            gname = rng.choice(earlier)
        for _ in range(10 if gname is None else 0):
            c = rng.choice(["copy", "bowl", "plate", "bag", "imp"]) + str(rng.randint(1, 9))
            if not any(p == c or p.startswith(c + ".") for p in self.g.nodes):
                gname = c
                break
        if gname is None:
            return
        ref = {"src": src, "query": q}
        if fault is None and q.endswith(".*") and rng.random() < 0.15:
            # children of a group imported straight into the root: new nodes, or assignments
            # to root nodes of the same name
            self.goto([])
            self.emit({"k": "import", "indent": 0, "name": None, "ref": ref})
            self.chain_valid = False
            return
        if rng.random() < 0.5:
            self.goto([])
            self.emit({"k": "import", "indent": 0, "name": gname, "ref": ref})
            self.chain_valid = False
            dind = 2
        else:
            self.goto([gname])
            self.emit({"k": "import", "indent": 2, "name": None, "ref": ref})
            self.chain_valid = False
            dind = 4
        # a property line right after the import belongs to the (last) imported copy only;
        # the node it was copied from keeps its own constraints
        if self.cfg["constraints"] and fault is None and not self.stopped and src is None \
                and "*" not in q and q in self.g.nodes and rng.random() < 0.5:
            orig = self.g.nodes[q]
            copy_path = self.g.last_new
            if orig["format"] is not None and orig["type"] == "str" and not orig["options"] \
                    and orig["condition"] is None and copy_path in self.g.nodes \
                    and copy_path != q and not orig["constant"] and isinstance(orig["value"], str):
                # the copy gets a format of its own; what it may hold afterwards is decided by
                # that one, not by the format it arrived with
                f2 = rng.choice([f for f in FORMATS if f[0] != orig["format"]])
                self.emit({"k": "format", "indent": dind, "regex": f2[0]})
                if self.stopped:
                    return
                old_only = [w for w in f2[2] if re.match(orig["format"], w)]
                if old_only and rng.random() < 0.5:
                    v = rng.choice(old_only)
                    self.fault_label = "format_of_the_copy"
                else:
                    v = rng.choice(f2[1])
                self.emit({"k": "mod", "indent": 0, "name": copy_path, "value": v, "unit": None})
                self.chain_valid = False
                return
            if orig["options"] and orig["type"] in ("int", "float", "str") and \
                    copy_path in self.g.nodes and copy_path != q and not orig["constant"] \
                    and orig["dims"] is None:
                bv, kind = self.bad_value(orig)
                if bv is not None and kind == "option":
                    self.emit({"k": "option", "indent": dind, "value": bv,
                               "unit": orig["unit"]})
                    if not self.stopped and rng.random() < 0.7:
                        # the original is now set to the value only its copy may take
                        self.fault_label = "option_of_the_copy_only"
                        self.emit({"k": "mod", "indent": 0, "name": q, "value": bv,
                                   "unit": None})
                        self.chain_valid = False


def cond_range(node, units=None):
    """(lo, hi, closed boundary values) of a generated numeric condition, in the node's unit.
    Literals written in another unit are converted and rounded to 12 significant digits
    (they were generated from short decimals in the node's unit)."""
    e = node.get("condition")
    closed = []

    def in_node_unit(c):
        v, u = c[2], c[3]
        if isinstance(v, (str, bool)):
            return None
        if units is not None and u is not None and node["unit"] is not None and u != node["unit"]:
            x = float(v) * units.factor(u) / units.factor(node["unit"])
            return float(f"{x:.12g}")
        return v
    if not e:
        return None, None, closed
    if e[0] == "or":
        x = in_node_unit(e[2])
        if x is not None:
            closed.append(x)
        e = e[1]
    if e[0] != "and" or e[1][0] != "cmp" or e[2][0] != "cmp":
        return None, None, closed
    lo, hi = in_node_unit(e[1]), in_node_unit(e[2])
    if lo is None or hi is None:
        return None, None, []
    if e[1][1] == ">=":
        closed.append(lo)
    if e[2][1] == "<=":
        closed.append(hi)
    return lo, hi, closed


class CallbackFault(Exception):
    pass


_PARSER_CODE = {}


def _new_parser(env, name, caller=None):
    """DIP(env, name=name), created by "a script" whose file name is `caller` (the parser asks
    the interpreter which file created it and resolves relative paths against that file)."""
    if not caller:
        return DIP(env, name=name) if env is not None else DIP(name=name)
    code = _PARSER_CODE.get(caller)
    if code is None:
        code = _PARSER_CODE[caller] = compile(
            "DIP(env, name=name) if env is not None else DIP(name=name)", caller, "eval")
    return eval(code, {"DIP": DIP, "env": env, "name": name})


def _render(st, caller):
    if caller and st["k"] == "source" and st.get("rel") and \
            os.path.dirname(st["path"]) == os.path.dirname(caller):
        return DM.render(dict(st, path=os.path.basename(st["path"])))
    return DM.render(st)


def make_callback(st, stats):
    """The user function behind `name T = (fname)`: the callback seam of the DIP parser."""
    fn = st["fn"]

    def callback(data):
        if fn["kind"] == "raise":
            stats.fault("callback_raise", True)
            raise CallbackFault("injected failure in " + st["fname"])
        if fn["kind"] == "double":
            return 2.0 * data[fn["path"]].value
        if fn["kind"] == "mutate":
            # not hostile, just careless: converts the numbers it reads to SI in place and
            # extends the lists it is handed
            stats.fault("callback_mutate", True)
            for k in list(data):
                try:
                    v = data[k]
                    if isinstance(getattr(v, "value", None), list):
                        v.value.append(v.value[0])
                    elif getattr(v, "unit", None) and hasattr(v, "convert"):
                        v.convert({"cm": "m", "m": "km", "mm": "m", "km": "m", "s": "ms",
                                   "ms": "s", "g": "kg", "kg": "g", "mg": "g"}.get(v.unit, v.unit))
                except Exception:
                    pass
            return fn["value"]
        if fn["kind"] == "reenter":
            # ordinary user code that uses the library itself while the outer parse is half-way
            # through its text: another parser parses a small text, a quantity is converted, a
            # unit scope is opened and closed.  Whatever goes wrong in there is reported after
            # the round (stats.reentry); the outer parse gets its constant either way.
            stats.fault("callback_uses_the_library", True)
            try:
                from scinumtools.units import Quantity, UnitEnvironment
                q = DIP(name=st["fname"] + "_nested")
                q.add_string("inner float = 2 cm\ninner = 30 mm\nflag bool = false\n"
                             "count int = 0\n  !options [0,1]")
                d = q.parse().data(format=Format.TUPLE)
                got = {k: (split_tuple(v)[0], split_tuple(v)[1]) for k, v in d.items()}
                want = {"inner": (3.0, "cm"), "flag": (False, None), "count": (0, None)}
                if list(got) != list(want) or any(
                        got[k][1] != want[k][1] or not same_value(got[k][0], want[k][0])
                        for k in want):
                    stats.reentry.append(["nested parse", repr(want), repr(got)[:200]])
                # a text with custom units of its own - under the names the outer text may be
                # using with other sizes - and a constraint in terms of them
                q = DIP(name=st["fname"] + "_nested2")
                q.add_string("$unit ell = 3 m\n$unit tick = 5 s\n$unit blob = 2 g\n"
                             "wm float = 1 m\nwm = 2 [ell]\nds float = 1 s\nds = 3 [tick]\n"
                             "x float = 2 [ell]\n  !condition ('{?} < 7 m')")
                d = q.parse().data(format=Format.TUPLE)
                got = {k: (split_tuple(v)[0], split_tuple(v)[1]) for k, v in d.items()}
                want = {"wm": (6.0, "m"), "ds": (15.0, "s"), "x": (2.0, "[ell]")}
                if list(got) != list(want) or any(
                        got[k][1] != want[k][1] or not same_value(got[k][0], want[k][0])
                        for k in want):
                    stats.reentry.append(["nested parse with custom units", repr(want),
                                          repr(got)[:200]])
                # a text that must be refused is refused in here as well
                for bad in ("size float cm", "x float = 9 m\n  !condition ('{?} < 7 m')",
                            "k int = 3\n  !options [1,2]"):
                    q = DIP(name=st["fname"] + "_nested3")
                    q.add_string(bad)
                    try:
                        q.parse()
                        stats.reentry.append(["invalid text parsed from a callback", "refused",
                                              "accepted: " + bad])
                    except Exception:
                        pass
                v = Quantity(3.0, "km").value("m")
                if abs(v - 3000.0) > 1e-9:
                    stats.reentry.append(["3 km in m", 3000.0, repr(v)])
                with UnitEnvironment({"reent": {"magnitude": 4.0,
                                                "dimensions": [0, 0, 1, 0, 0, 0, 0, 0]}}):
                    v = Quantity(2.0, "reent").value("s")
                if abs(v - 8.0) > 1e-9:
                    stats.reentry.append(["2 reent in s", 8.0, repr(v)])
            except Exception as e:
                stats.reentry.append(["library used from a callback", "no error",
                                      type(e).__name__ + repr(e.args)[:160]])
            return fn["value"]
        if fn["kind"] == "scribble":
            # a hostile callback: overwrite and delete what it was handed
            stats.fault("callback_scribble", True)
            for k in list(data):
                try:
                    data[k].value = "junk"
                    data[k].unit = "furlong"
                except Exception:
                    pass
            for k in list(data)[::2]:
                del data[k]
            data["intruder"] = 1
        return fn["value"]
    return callback


def all_leaves(v, pred):
    if isinstance(v, list):
        return all(all_leaves(x, pred) for x in v)
    return pred(v)


# ------------------------------------------------------------------------------ the machine

class DipStoreMachine(Machine):
    NAME = "dipstore"

    @classmethod
    def gen_config(cls, rng, prop, tier):
        fault_free = rng.random() < 0.25
        cfg = {
            "prop": prop, "tier": tier,
            "max_ops": rng.randint(2, 8) if tier == "quick" else rng.randint(3, 12),
            "max_rounds": 6, "max_stmts": rng.randint(3, 20),
            "max_depth": rng.randint(0, 3),
            "p_fault": 0.0 if fault_free else rng.choice([0.2, 0.35, 0.5]),
            "type_weights": [rng.choice([2, 4]), rng.choice([1, 3]), 1, rng.choice([1, 2])],
            "p_subtype": rng.choice([0.0, 0.3]),
            "p_array": rng.choice([0.0, 0.0, 0.15, 0.3]),
            "p_none": rng.choice([0.0, 0.05, 0.15]),
            "p_constant": rng.choice([0.0, 0.1, 0.2]),
            "p_typed_mod": rng.choice([0.0, 0.2, 0.5]),
            "p_other_unit": rng.choice([0.2, 0.5, 0.8]),
            "p_chunk_split": rng.choice([0.0, 0.3, 0.6]),
            "p_base": rng.choice([0.3, 0.6, 0.9]),
            "custom_units": rng.random() < 0.5,
            "constraints": False, "p_condition": 0, "p_options": 0, "p_format": 0,
            "p_boundary": rng.choice([0.0, 0.2, 0.5]),
            "p_palette": rng.choice([0.0, 0.3, 0.6]),
            "p_noise": rng.choice([0.0, 0.0, 0.15, 0.3]),
            "nonnumeric_conditions": rng.random() < 0.5,
            "refs": False, "files": False, "p_str_slice": rng.choice([0.0, 0.3]),
            "io_faults": False, "callbacks": False,
            "weights": {"def": 4, "decl": rng.choice([0, 1]), "mod": rng.choice([3, 5, 8]),
                        "unit": 0, "inject": 0, "import": 0, "source": 0},
            "faults": [],
        }
        if cfg["custom_units"]:
            cfg["weights"]["unit"] = 1
        if prop == "C14":
            cfg["faults"] = [f for f in ("other_type", "other_dimension", "constant",
                                         "declared_unset") if rng.random() < 0.7]
            cfg["weights"]["cmp"] = rng.choice([0, 0, 1])   # steps that read stored nodes
            if rng.random() < 0.4:
                # constrained nodes in the assignment mix: validation must not touch the
                # value, unit or type that the assignments produced
                cfg["constraints"] = True
                cfg["p_condition"], cfg["p_options"], cfg["p_format"] = 0.3, 0.5, 0.3
        if prop == "C16":
            cfg["constraints"] = True
            cfg["p_condition"] = rng.choice([0.3, 0.6])
            cfg["p_options"] = rng.choice([0.3, 0.6])
            cfg["p_format"] = rng.choice([0.3, 0.7])
            cfg["p_array"] = rng.choice([0.0, 0.2, 0.4])
            cfg["faults"] = [f for f in ("bad_value", "bad_dims", "declared_unset",
                                         "condition_unevaluable")
                             if rng.random() < 0.8]
            # constraints travel with imported copies: import, then modify the copy
            cfg["weights"]["import"] = rng.choice([0, 1, 2])
            if rng.random() < 0.3:
                # user functions see the node values: whatever they do to what they are handed,
                # the returned environment still satisfies every constraint
                cfg["callbacks"] = True
                cfg["weights"]["fn"] = 1
            if rng.random() < 0.3:
                # bounded array nodes filled from text files (whole or sliced), then modified
                cfg["files"] = True
                cfg["weights"]["source"] = 2
                cfg["weights"]["inject"] = 2
        if prop == "C17":
            cfg["refs"] = True
            cfg["files"] = rng.random() < 0.7
            cfg["constraints"] = rng.random() < 0.4
            if cfg["constraints"]:
                cfg["p_condition"], cfg["p_options"], cfg["p_format"] = 0.3, 0.3, 0.3
            cfg["weights"].update({"inject": rng.choice([2, 4]), "import": rng.choice([1, 3]),
                                   "source": 2 if cfg["files"] else 0})
            cfg["io_faults"] = cfg["files"] and not fault_free and rng.random() < 0.6
            cfg["weights"]["cmp"] = rng.choice([0, 1, 2])
            cfg["callbacks"] = rng.random() < 0.4
            cfg["weights"]["fn"] = 1 if cfg["callbacks"] else 0
            cfg["faults"] = [f for f in ("select_none", "select_several", "missing_source",
                                         "import_none", "missing_file", "self_reference",
                                         "inject_other_dimension")
                             if rng.random() < 0.7]
            if cfg["callbacks"] and rng.random() < 0.7:
                cfg["faults"].append("callback_raises")
            if cfg["constraints"] and rng.random() < 0.7:
                cfg["faults"].append("bad_value")     # e.g. on an imported copy
        if prop == "C09":
            # every way a parse can end early, always with custom units in play: only the
            # process-wide tables are judged (see m_c09)
            cfg["custom_units"] = True
            cfg["weights"]["unit"] = rng.choice([2, 3])
            cfg["p_other_unit"] = 0.8
            cfg["refs"] = True
            cfg["files"] = rng.random() < 0.5
            cfg["constraints"] = rng.random() < 0.7
            if cfg["constraints"]:
                cfg["p_condition"], cfg["p_options"], cfg["p_format"] = 0.5, 0.3, 0.3
            cfg["weights"].update({"inject": 2, "import": 1, "source": 2 if cfg["files"] else 0,
                                   "cmp": rng.choice([0, 1, 2])})
            cfg["io_faults"] = cfg["files"] and rng.random() < 0.5
            cfg["callbacks"] = rng.random() < 0.4
            cfg["weights"]["fn"] = 1 if cfg["callbacks"] else 0
            cfg["p_fault"] = rng.choice([0.35, 0.5, 0.7])
            cfg["faults"] = [f for f in ("other_type", "other_dimension", "constant",
                                         "declared_unset", "bad_value", "bad_dims",
                                         "select_none", "select_several", "missing_source",
                                         "import_none", "missing_file", "self_reference",
                                         "condition_unevaluable", "inject_other_dimension")
                             if rng.random() < 0.7]
            if cfg["callbacks"]:
                cfg["faults"].append("callback_raises")
        return cfg

    # ------------------------------------------------------------------ lifecycle
    def start(self):
        self.base = tables.baseline()
        self.base.restore()
        self.fs = SimFS()
        self.fs.install()
        self.files = {}          # model of the files: path -> {"kind", "stmts"|"text"}
        self.envs = []           # committed: {"env", "model", "snap", "name"}
        self.nround = 0
        self.queue = []
        self.abstract = "e0"
        self.foreign = 0

    def stop(self):
        self.fs.uninstall()
        self.base.restore()

    # ------------------------------------------------------------------ generation
    def gen_op(self, rng):
        if self.queue:
            return self.queue.pop(0)
        cfg = self.cfg
        if cfg["files"] and (not self.files or rng.random() < 0.2):
            op = self._gen_file(rng)
            if op:
                return op
        if self.nround >= cfg["max_rounds"] * (4 if cfg.get("marathon") else 1):
            return None
        return self._gen_round(rng)

    def _gen_file(self, rng):
        n = len(self.files)
        if n and rng.random() < 0.5:
            path = rng.choice(sorted(self.files))      # replace content
        else:
            path = f"{ROOT}f{n + 1}" + (".dip" if rng.random() < 0.7 else ".txt")
            if path.endswith(".txt") and rng.random() < 0.5:
                # text files of two "projects": the same few names in two directories, so that a
                # relative path means another file for a script of the other project
                path = ROOT + rng.choice(["projA/", "projB/"]) + rng.choice(["notes.txt", "data.txt"])
        if path.endswith(".dip") and rng.random() < 0.15:
            # a file of modifications only (the documented way of keeping run settings apart):
            # as a source its lines are untyped values that references pick up with their unit
            stmts = []
            for nm in rng.sample(["box.size", "box.count", "run.steps", "dt", "limit"],
                                 rng.randint(1, 3)):
                if rng.random() < 0.6:
                    u = rng.choice(["m", "km", "cm", "s", "ms", "g", "kg"])
                    stmts.append({"k": "mod", "indent": 0, "name": nm,
                                  "value": rng.choice([5000.0, 2.5, 300.0, 12.0, 0.5]), "unit": u})
                else:
                    stmts.append({"k": "mod", "indent": 0, "name": nm,
                                  "value": rng.choice([3, 40, 7]), "unit": None})
            return {"op": "write_file", "path": path, "kind": "dip", "stmts": stmts}
        if path.endswith(".dip"):
            model = DM.Env()
            gen = RoundGen(self, rng, model, {})
            saved = dict(self.cfg)
            # remote files: plain definitions and modifications in standard units
            self.cfg = dict(saved, constraints=False, refs=False, custom_units=False,
                            p_none=0.0, p_constant=0.0, max_depth=min(2, saved["max_depth"]))
            try:
                for _ in range(rng.randint(1, 8)):
                    if rng.random() < 0.7 or not model.nodes:
                        gen.s_definition()
                    else:
                        gen.s_modification()
                    if gen.stopped:
                        break
            finally:
                self.cfg = saved
            if gen.stopped:
                return None
            return {"op": "write_file", "path": path, "kind": "dip", "stmts": gen.stmts}
        return {"op": "write_file", "path": path, "kind": "text",
                "text": rng.choice(["hello world", "line one", "Will Smith", "42",
                                    "[10,20,30,40]", "[1.5,2.5,3.5]", "[[1,2,3],[4,5,6]]",
                                    "[7,8]"])}

    def _gen_round(self, rng):
        cfg = self.cfg
        base = -1
        if self.envs and rng.random() < cfg["p_base"]:
            base = rng.randrange(len(self.envs))
        model = self.envs[base]["model"].copy() if base >= 0 else DM.Env()
        gen = RoundGen(self, rng, model, self.files)
        fault = None
        if cfg["faults"] and rng.random() < cfg["p_fault"]:
            fault = rng.choice(cfg["faults"])
        nst = rng.randint(1, cfg["max_stmts"])
        w = dict(cfg["weights"])
        if cfg.get("marathon") and rng.random() < 0.5:
            # a long text that mostly defines: environments of dozens of nodes (size boundaries
            # of whatever the library keeps per environment)
            nst = rng.randint(cfg["max_stmts"], cfg["max_stmts"] * 3 + 30)
            w["def"] = w["def"] * 3
            self.stats.probe("long_text")
        fault_at = rng.randrange(nst) if fault else -1
        kinds = sorted(w)
        i = 0
        guard = 0
        if cfg["custom_units"] and rng.random() < 0.08:
            # a prelude that defines units and nothing else: the environment it returns holds
            # no node, later rounds are chained on it for its units
            for _ in range(rng.randint(1, 2)):
                gen.s_unit()
            nst = 0 if gen.stmts else nst
        while i < nst and not gen.stopped and guard < nst * 4:
            guard += 1
            before = len(gen.stmts)
            if i == fault_at:
                self._gen_fault(gen, fault, rng)
                fault_at = -1 if len(gen.stmts) > before else fault_at + 1
            else:
                k = rng.choices(kinds, [w[x] for x in kinds])[0]
                if k == "def" or not gen.g.nodes:
                    gen.s_definition()
                elif k == "decl":
                    self._gen_declaration(gen, rng)
                elif k == "mod":
                    gen.s_modification()
                elif k == "unit":
                    gen.s_unit()
                elif k == "source":
                    gen.s_source()
                elif k == "inject":
                    gen.s_injection()
                elif k == "import":
                    gen.s_import()
                elif k == "fn":
                    gen.s_function()
                elif k == "cmp":
                    gen.s_compare()
            i += 1
        # split into chunks
        stmts = gen.stmts
        chunks = []
        cur = []
        lead = 0
        while lead < len(stmts) and stmts[lead]["k"] in ("unit", "source"):
            lead += 1
        for n, st in enumerate(stmts):
            cur.append(st)
            if (n + 1 == lead and rng.random() < 0.5 and len(chunks) < 2) or \
                    (rng.random() < cfg["p_chunk_split"] * 0.3 and len(chunks) < 2):
                chunks.append(cur)
                cur = []
        if cur or not chunks:
            chunks.append(cur)
        out = []
        file_ops = []
        for j, c in enumerate(chunks):
            if c and all(st["k"] in ("unit", "source") and st.get("ref") is None for st in c) \
                    and rng.random() < 0.5:
                # the same definitions through the Python API: add_unit() / add_source()
                out.append({"via": "api", "stmts": c})
                continue
            if cfg["files"] and rng.random() < 0.3 and c:
                path = f"{ROOT}main_{self.nround + 1}_{j}.dip"
                file_ops.append({"op": "write_file", "path": path, "kind": "dip", "stmts": c})
                out.append({"via": "file", "path": path})
            else:
                out.append({"via": "string", "stmts": c})
        op = {"op": "round", "base": base, "chunks": out, "fault": gen.fault_label or fault,
              "io_fault": None}
        if cfg["p_fault"] and rng.random() < 0.06:
            # the caller's first text ends in a line that is no DIP statement at all; the
            # parser refuses it, the caller catches that and hands the real text to the same
            # parser object
            op["prelude"] = rng.choice(["  !condition", 'x str = """\nabc', "!options", "a float = ",
                                        "$unit", "a float = 3 m m m", "@case"])
        if rng.random() < 0.15:
            # the parser is used as a context manager and asked to parse after its block
            op["with_block"] = True
        rel = [st for c in out if c["via"] == "string" for st in c["stmts"]
               if st["k"] == "source" and st["path"].endswith(".txt") and st.get("ref") is None]
        if rel and rng.random() < 0.6:
            # the script that creates this round's parser lives in the directory of one of the
            # text files, and names the text files of its directory by relative paths (resolved
            # against the creating script - also when the parser is chained on an environment
            # that a script of another directory produced)
            d = os.path.dirname(rng.choice(rel)["path"])
            op["caller"] = d + "/run.py"
            for st in rel:
                if os.path.dirname(st["path"]) == d:
                    st["rel"] = True
        if rng.random() < 0.12:
            # a second parser object is alive while this round runs: it was given the text of an
            # earlier committed round (same base) and parses during or after this round
            op["straddle"] = {"k": rng.randint(0, 99),
                              "when": rng.choice(["middle", "after", "same_object", "same_object"])}
        if base >= 0 and rng.random() < 0.1:
            # a documentation build runs over the base environment first
            # (DIP(base, docs=True).parse_docs()); the base is what it was, and the parse that
            # follows is judged like any other
            op["docs_first"] = True
        if cfg["io_faults"] and rng.random() < 0.3:
            read = [c["path"] for c in out if c["via"] == "file"] + \
                [st["path"] for st in stmts if st["k"] == "source"]
            if read:
                op["io_fault"] = {"path": rng.choice(read),
                                  "kind": rng.choice(["ENOENT", "EACCES", "EIO", "undecodable",
                                                      "torn"])}
                if op["io_fault"]["kind"] == "torn":
                    # the reader sees a prefix cut at an arbitrary character
                    op["io_fault"]["permille"] = rng.randint(1, 999)
        if cfg["prop"] in ("C16", "C09") and not op["fault"] and not op["io_fault"] \
                and rng.random() < 0.06:
            # a settings file read *before* the text that defines its nodes (add_file, then
            # add_string): whether such an order is accepted is not stated anywhere - but if an
            # environment comes back, its values satisfy the constraints of their definitions
            new = [(p_, n_) for p_, n_ in gen.g.nodes.items()
                   if (base < 0 or p_ not in self.envs[base]["model"].nodes)
                   and not isinstance(n_["value"], list) and n_["value"] is not None
                   and n_["type"] in ("int", "float", "str") and not n_.get("imported")]
            if len(new) >= 2:
                picked = rng.sample(new, rng.randint(2, min(4, len(new))))
                mods = []
                for p_, n_ in picked:
                    if n_["type"] == "str":
                        val = rng.choice(["zzz", "Qq", "none of these"])
                    elif n_["type"] == "int":
                        val = int(n_["value"]) * 9 + rng.choice([1234, -977])
                    else:
                        val = float(f"{float(n_['value']) * 9.5 + rng.choice([1234.5, -977.25]):.6g}")
                    if n_.get("unsigned"):
                        val = abs(val)
                    mods.append({"k": "mod", "indent": 0, "name": p_, "value": val,
                                 "unit": n_["unit"] if n_["type"] != "str" else None})
                spath = f"{ROOT}settings_{self.nround + 1}.dip"
                file_ops.insert(0, {"op": "write_file", "path": spath, "kind": "dip", "stmts": mods})
                op["chunks"] = [{"via": "file", "path": spath}] + op["chunks"]
                op["settings_first"] = True
        if file_ops:
            self.queue = file_ops[1:] + [op]
            return file_ops[0]
        return op

    def _gen_declaration(self, gen, rng):
        gen.s_definition(declare=True)
        if gen.stopped or not gen.stmts or not gen.stmts[-1].get("declare"):
            return
        # usually give it a value later in the round
        st = gen.stmts[-1]
        path = gen.g.last_new
        if gen.fault_label != "declared_unset" and path in gen.g.nodes:
            node = gen.g.nodes[path]
            v = gen.good_value(node)
            if v is None:
                v = gen.scalar_value(node["type"])
            gen.emit({"k": "mod", "indent": st["indent"], "name": st["name"], "value": v,
                      "unit": None})

    def _gen_fault(self, gen, fault, rng):
        if fault == "other_type" and rng.random() < 0.4:
            # the first value of a freshly declared node arrives with another data type
            gen.s_definition(declare=True)
            if gen.stopped or not gen.stmts or not gen.stmts[-1].get("declare"):
                return
            st = gen.stmts[-1]
            t2 = rng.choice([t for t in ("float", "int", "bool", "str") if t != st["type"]])
            v = {"float": 3.0, "int": 3, "bool": True, "str": "3"}[t2]
            gen.fault_label = "other_type_first_value"
            gen.emit({"k": "def", "indent": st["indent"], "name": st["name"], "type": t2,
                      "value": v, "unit": st.get("unit") if t2 in ("int", "float") else None})
            return
        if fault in ("other_type", "other_dimension", "constant", "bad_value"):
            gen.s_modification(fault)
        elif fault == "declared_unset" and rng.random() < 0.3:
            # a declared node is copied by an import before it has a value; the original gets
            # its value afterwards, the copy never does
            gen.s_definition(declare=True)
            if gen.stopped or not gen.stmts or not gen.stmts[-1].get("declare"):
                return
            path = gen.g.last_new
            node = gen.g.nodes.get(path)
            if node is None or node["dims"] is not None:
                return
            cname = "imp" + str(rng.randint(1, 9))
            if any(p_ == cname or p_.startswith(cname + ".") for p_ in gen.g.nodes):
                return
            gen.chain_valid = False
            gen.fault_label = "declared_copy_unset"
            gen.emit({"k": "import", "indent": 0, "name": cname, "ref": {"src": None, "query": path}})
            if gen.stopped:
                return
            v = gen.good_value(node)
            if v is None:
                v = gen.scalar_value(node["type"])
            gen.emit({"k": "mod", "indent": 0, "name": path, "value": v, "unit": None})
        elif fault == "declared_unset":
            gen.fault_label = "declared_unset"
            gen.s_definition(declare=True)
        elif fault == "bad_dims":
            cands = [p for p, n in gen.g.nodes.items() if n["dims"] is not None
                     and not n["constant"] and any(hi is not None for lo, hi in n["dims"])]
            if not cands:
                return
            path = rng.choice(cands)
            node = gen.g.nodes[path]
            shape = []
            for lo, hi in node["dims"]:
                shape.append((hi + 1) if hi is not None else (lo or 1))
            if len(node["dims"]) > 1 and rng.random() < 0.4:
                # a value of lower rank than declared (every size within its own bounds)
                shape = [max(node["dims"][0][0] or 1, 1) if node["dims"][0][1] is None
                         else node["dims"][0][1]]
            gen.chain_valid = False
            gen.fault_label = "constraint_dims"
            st = {"k": "mod", "indent": 0, "name": path,
                  "value": gen.array_value(node["type"], shape), "unit": None}
            if rng.random() < 0.4:
                # typed form that restates looser bounds: the node keeps its own
                st = dict(st, k="def", type=node["type"], bits=node["bits"],
                          unsigned=node["unsigned"], dims=[[None, None] for _ in node["dims"]])
                gen.fault_label = "constraint_dims_typed_looser"
            if node["unsigned"]:
                st["value"] = DM.map_leaves(st["value"], abs)
            gen.emit(st)
        elif fault == "inject_other_dimension":
            gen.s_injection("other_dimension")
        elif fault in ("select_none", "select_several", "missing_source", "self_reference"):
            gen.s_injection(fault)
        elif fault == "import_none":
            gen.s_import("select_none")
        elif fault == "callback_raises":
            gen.s_function("callback_raises")
        elif fault == "condition_unevaluable":
            gen.bad_condition = rng.choice(["reference", "dimension"])
            gen.s_definition()
            gen.bad_condition = None
        elif fault == "missing_file":
            gen.fault_label = "missing_file"
            gen.emit({"k": "source", "indent": 0, "name": "ghost",
                      "path": f"{ROOT}ghost.dip"})

    # ------------------------------------------------------------------ execution
    def apply(self, op):
        k = op["op"]
        if k == "write_file":
            if op["kind"] == "dip":
                text = "\n".join(DM.render(st) for st in op["stmts"])
                self.files[op["path"]] = {"kind": "dip", "stmts": copy.deepcopy(op["stmts"])}
            else:
                text = op["text"]
                self.files[op["path"]] = {"kind": "text", "text": text}
            self.fs.write(op["path"], text)
            return "file_written", [op["path"], self.fs.versions[op["path"]]]
        if k != "round":
            return "skip", None
        outcome, obs = self._apply_round(op)
        # outcome class = verdict + shape of the round (statement kinds, bucketed counts)
        kinds = {}
        for c in op["chunks"]:
            for st in (c.get("stmts") or (self.files.get(c.get("path"), {}).get("stmts") or [])):
                kinds[st["k"]] = kinds.get(st["k"], 0) + 1
        shape = ",".join(f"{k}{min(v, 3)}" for k, v in sorted(kinds.items()))
        return f"{outcome}|{shape}", obs

    def _tag(self, default, stmts, model):
        kinds = {st["k"] for st in stmts}
        if any(st["k"] == "unit" and st.get("ref") is not None for st in stmts):
            kinds.add("inject")        # a unit sized by reference is an injection
        if kinds & {"inject", "import", "source", "fn"} and self.cfg["prop"] != "C16":
            return "C17"
        if "cmp_expr" in kinds and self.cfg["prop"] == "C17":
            return "C17"
        if kinds & {"option", "options", "condition", "format"} or any(
                n["options"] or n["condition"] is not None or n["format"] is not None
                or n["dims"] is not None for n in model.nodes.values()):
            return "C16" if default != "C17" else default
        return default

    def _violation(self, tag, oracle, detail, sig):
        """Violations of another property's clause are not this check's to report."""
        if tag != self.cfg["prop"]:
            self.foreign += 1
            self.stats.probe(f"foreign_{tag}_{oracle}")
            return None
        return Violation(oracle, detail, signature=f"{tag}/{sig}")

    def _apply_round(self, op):
        self.nround += 1
        name = f"r{self.nround}"
        base = None
        if op["base"] >= 0 and self.envs:
            base = self.envs[op["base"] % len(self.envs)]
        model = base["model"].copy() if base else DM.Env()
        # the statements as the parser will see them, in order
        all_stmts = []
        chunks = []
        missing_chunk_file = False
        for c in op["chunks"]:
            if c["via"] == "file":
                f = self.files.get(c["path"])
                if f is None or f["kind"] != "dip":
                    missing_chunk_file = True
                    chunks.append((c, []))
                    continue
                chunks.append((c, f["stmts"]))
                all_stmts += f["stmts"]
            else:
                chunks.append((c, c["stmts"]))
                all_stmts += c["stmts"]
        for st in all_stmts:
            self.stats.probe("stmt_" + st["k"])
            if st["k"] in ("def", "mod", "option", "options", "inject") and st.get("unit") and \
                    st["unit"].startswith("["):
                self.stats.probe("custom_unit_used")
        if base is not None:
            self.stats.probe("round_chained_on_earlier_environment")
        if any(c["via"] == "file" for c, _ in chunks):
            self.stats.probe("round_with_add_file")
        if len(chunks) > 1:
            self.stats.probe("round_with_several_chunks")
        # ---- model verdict
        expected, why, eprop = "commit", None, None
        self._abort_imported = False
        io = op.get("io_fault")
        io_paths_read = [c["path"] for c, _ in chunks if c["via"] == "file"]
        try:
            if missing_chunk_file:
                raise DM.Abort("file given to add_file does not exist", "C17")
            if io and io["path"] in io_paths_read:
                raise DM.Abort("I/O fault while reading " + io["path"], "C17")
            files_view = self.files
            if io:
                files_view = dict(self.files)
                files_view.pop(io["path"], None)     # any $source read of it fails
            model_stmts = all_stmts
            if op.get("settings_first") and chunks and chunks[0][0]["via"] == "file":
                model_stmts = all_stmts[len(chunks[0][1]):]
            DM.run_statements(model, model_stmts, files_view)
            model.validate()
            if op.get("settings_first"):
                raise DM.Unspecified("a settings file read before the definitions of its nodes")
        except DM.Abort as a:
            expected, why, eprop = "abort", a.why, a.prop
            if io and a.why.startswith(("source file does not exist", "I/O fault")):
                eprop = "C17"
            self._abort_imported = bool(
                a.prop == "C16" and isinstance(a.detail, list) and a.detail and
                isinstance(a.detail[0], str) and model.nodes.get(a.detail[0], {}).get("imported"))
        except DM.Unspecified as u:
            expected, why = "unspecified", str(u)
        if io and io["kind"] == "torn":
            # what a cut-off text means is anybody's guess; the round runs for what must hold
            # however it ends: earlier environments, files and the unit tables untouched
            expected, why, eprop = "unspecified", "file read while it was being written", None
        # ---- implementation
        kind = io["kind"] if io else None
        if kind == "torn":
            kind = "torn:%d" % io.get("permille", 500)
        self.fs.plan = {io["path"]: [kind]} if io else {}
        self.fs.fired = []
        files_before = self.fs.snapshot()
        got, env, err = "commit", None, None
        if op.get("docs_first") and base:
            try:
                d = DIP(base["env"], name=name + "docs", docs=True)
                # (a fixed small text: parse_docs() is no subject of these properties, and on
                # arbitrary generated text the pinned code may loop forever in it)
                d.add_string("docsprobe float = 1 m\n  !description 'a probe'\ndocsflag bool = true")
                d.parse_docs()
                self.stats.fault("documentation_built_over_the_base_first", True)
            except Exception:
                self.stats.fault("documentation_built_over_the_base_first", False)
        sib = self._sibling_open(op, name, base)
        self.stats.reentry = []
        p = None
        try:
            p = _new_parser(base["env"] if base else None, name, op.get("caller"))
            if op.get("caller"):
                self.stats.probe("parser_created_by_a_script_of_another_directory")
            if op.get("with_block"):
                p.__enter__()
            for st in all_stmts:
                if st["k"] == "fn":
                    p.add_function(st["fname"], make_callback(st, self.stats))
            if op.get("prelude"):
                refused = False
                p.add_string(op["prelude"])
                try:
                    p.parse()
                except Exception:
                    refused = True
                self.stats.fault("malformed_text_then_retry_on_the_same_parser", refused)
            self._feed(p, chunks, op.get("caller"))
            if op.get("with_block"):
                p.__exit__(None, None, None)
            if sib and sib["when"] == "middle":
                self._sibling_parse(sib)
            env = p.parse()
        except Exception as e:
            got, err = "abort", e
        if sib and "got" not in sib:
            if sib.get("same_object"):
                # the parser object of this round is handed the other text now and asked again
                sib["parser"] = p
                try:
                    for c, stmts in sib["chunks"]:
                        for st in stmts:
                            if st["k"] == "fn":
                                p.add_function(st["fname"], make_callback(st, self.stats))
                    self._feed(p, sib["chunks"], op.get("caller"))
                except Exception as e:
                    sib["got"], sib["error"] = "abort", e
            self._sibling_parse(sib)
        self.fs.plan = {}
        if io:
            self.stats.fault("io_" + io["kind"], bool(self.fs.fired))
        if op.get("fault"):
            self.stats.fault("stmt_" + str(op["fault"]), expected == "abort")
        if base is not None:
            self.nontrivial = True
        tag_default = self.cfg["prop"] if self.cfg["prop"] != "C16" else "C14"
        if self.cfg["prop"] == "C17":
            tag_default = "C14"
        tag = self._tag(tag_default, all_stmts, model)
        detail_base = {"round": name, "base": None if base is None else base["name"],
                       "text": [("file " + c["path"] if c["via"] == "file" else "string") + ":\n" +
                                "\n".join(DM.render(st) for st in s) for c, s in chunks],
                       "io_fault": io}
        if self.stats.reentry:
            probs, self.stats.reentry = self.stats.reentry, []
            raise Violation("library_used_from_a_callback_misbehaves",
                            dict(detail_base, problems=probs[:3]),
                            signature=f"{self.cfg['prop']}/reentry/" + _slug(probs[0][0]))
        if sib:
            self._sibling_verdict(sib, detail_base)
        # ---- oracle 3: earlier environments and files untouched (always)
        for e in self.envs:
            try:
                now = env_snapshot(e["env"])
                same = snapshot_equal(e["snap"], now)
            except Exception as ex:
                same, now = False, {"error": repr(ex)}
            if not same:
                v = self._violation("C17", "earlier_environment_changed",
                                    dict(detail_base, environment=e["name"],
                                         was=_short(e["snap"]), now=_short(now),
                                         is_base=(base is not None and e is base)),
                                    "base_changed/" + ("base" if base is not None and e is base
                                                       else "other"))
                if v:
                    raise v
                e["snap"] = now if "keys" in now else e["snap"]
        if self.fs.snapshot() != files_before:
            v = self._violation("C17", "file_content_changed_by_parse", detail_base,
                                "files_changed")
            if v:
                raise v
        tbl = tables.diff(self.base.snap, tables.snapshot())
        if tbl:
            v = self._violation("C09", "tables_changed_by_parse",
                                dict(detail_base, diff=tbl, parse=got), "leak/dipstore/" + got)
            if v:
                self.base.restore()
                raise v
            # for the other properties the leak itself is C09's business; what it does to the
            # following rounds (valid text refused, unknown units accepted) is theirs, so the
            # tables stay as the library left them until the end of the run
        # ---- oracle 2: must abort
        if expected == "abort" and got == "commit":
            if eprop == "C16" and self.cfg["prop"] == "C17" and getattr(self, "_abort_imported", False):
                eprop = "C17"     # a constraint that travelled with an import is not enforced
            v = self._violation(eprop if eprop in ("C14", "C16", "C17") else tag,
                                "invalid_text_accepted",
                                dict(detail_base, model_says=why, result=_data_or_error(env)),
                                "accepted/" + _slug(why))
            if v:
                raise v
            return "accepted_invalid", why
        if expected == "abort":
            return "aborted", [why, type(err).__name__]
        if expected == "unspecified":
            if op.get("settings_first") and got == "commit" and why.startswith("a settings file"):
                # accepted after all: the constraints written with the definitions hold
                self.stats.probe("settings_first_accepted")
                try:
                    data = env.data(format=Format.TUPLE)
                except Exception:
                    data = None
                if data is not None:
                    self._revalidate(data, model, detail_base)
            return "unspecified", why
        # ---- oracle 1: must commit, with the model's content
        if got == "abort" and model.may_abort:
            return "aborted_allowed", type(err).__name__
        if got == "abort":
            v = self._violation(tag, "valid_text_rejected",
                                dict(detail_base, error=[type(err).__name__, repr(err.args)[:300]]),
                                "rejected/" + type(err).__name__ + "/" + _err_slug(err))
            if v:
                raise v
            return "rejected_valid", [type(err).__name__, str(err.args[0])[:60] if err.args else ""]
        try:
            data = env.data(format=Format.TUPLE)
            types = env.data(format=Format.TYPE)
        except Exception as e:
            itag = "C17" if any(st["k"] == "import" for st in all_stmts) else \
                ("C14" if self.cfg["prop"] != "C16" else tag)
            v = self._violation(itag, "returned_environment_unreadable",
                                dict(detail_base, error=[type(e).__name__, repr(e.args)[:200]]),
                                "unreadable/" + ("import" if itag == "C17" else "value"))
            if v:
                raise v
            return "unreadable", type(e).__name__
        self._compare(env, data, types, model, all_stmts, detail_base, tag)
        # ---- oracle 4: independent re-validation of what was returned
        self._revalidate(data, model, detail_base)
        snap = env_snapshot(env)
        model.may_abort = False
        self.envs.append({"env": env, "model": model, "snap": snap, "name": name,
                          # what a second parser needs to do the same again (sibling parses)
                          "op": op, "base_rec": base, "files": self.fs.snapshot(),
                          "again": not io and not op.get("settings_first") and not missing_chunk_file})
        self.abstract = f"e{min(len(self.envs), 6)}"
        return "committed", [len(model.nodes), list(model.nodes)[:6]]

    # ---- two parser objects alive at once: the merge order of two sessions is the schedule
    def _chunks_of(self, op):
        out = []
        for c in op["chunks"]:
            if c["via"] == "file":
                f = self.files.get(c["path"])
                if f is None or f["kind"] != "dip":
                    return None
                out.append((c, f["stmts"]))
            else:
                out.append((c, c["stmts"]))
        return out

    def _feed(self, p, chunks, caller=None):
        for c, stmts in chunks:
            if c["via"] == "file":
                p.add_file(c["path"])
            elif c["via"] == "api":
                for st in stmts:
                    if st["k"] == "unit":
                        p.add_unit(st["name"], st["value"], st.get("unit"))
                    elif st["k"] == "source":
                        p.add_source(st["name"], st["path"])
                self.stats.probe("definitions_through_python_api")
            else:
                p.add_string("\n".join(_render(st, caller) for st in stmts))

    def _sibling_open(self, op, name, base=None):
        """A second session: the text of an earlier committed round is handed once more to a
        parser object of its own, on the same base, *before* this round's parser exists; it is
        asked to parse while this round's parser holds its queued text ("middle") or after this
        round has ended, however it ended ("after").  The same text on the same base must give
        the environment it gave then - whatever another parser object did in between."""
        sd = op.get("straddle")
        if not sd or not self.envs or op.get("io_fault"):
            return None      # (an I/O fault planned for this round would hit the sibling's reads)
        rec = self.envs[sd["k"] % len(self.envs)]
        if not rec.get("again") or rec["files"] != self.fs.snapshot():
            self.stats.fault("sibling_parser_straddles_the_round", False)
            return None
        chunks = self._chunks_of(rec["op"])
        if chunks is None:
            self.stats.fault("sibling_parser_straddles_the_round", False)
            return None
        # registered functions live on the base environment object, which both parsers share:
        # two texts that register different functions under one name are not independent
        # sessions (pinned behaviour, and no statement says otherwise)
        mine = {st["fname"] for c in op["chunks"] for st in
                (c.get("stmts") or (self.files.get(c.get("path"), {}) or {}).get("stmts") or [])
                if st.get("k") == "fn"}
        theirs = {st["fname"] for c, stmts in chunks for st in stmts if st["k"] == "fn"}
        if mine & theirs:
            self.stats.fault("sibling_parser_straddles_the_round", False)
            return None
        sib = {"rec": rec, "when": sd.get("when", "after")}
        if sib["when"] == "same_object":
            # no second parser: this round's own parser object parses a second time.  A parser
            # starts from its base every time it is asked (probed on the pinned tree), so the
            # text of an earlier round on the same base must give that round's environment again
            if rec["base_rec"] is not base or any(c["via"] != "string" for c, _ in chunks) or \
                    rec["op"].get("caller") != op.get("caller"):
                self.stats.fault("parser_object_parses_a_second_text", False)
                return None
            sib.update(same_object=True, chunks=chunks)
            self.stats.fault("parser_object_parses_a_second_text", True)
            self.nontrivial = True
            return sib
        try:
            b = rec["base_rec"]
            sp = _new_parser(b["env"] if b else None, name + "sib", rec["op"].get("caller"))
            for c, stmts in chunks:
                for st in stmts:
                    if st["k"] == "fn":
                        sp.add_function(st["fname"], make_callback(st, self.stats))
            self._feed(sp, chunks, rec["op"].get("caller"))
            sib["parser"] = sp
        except Exception as e:
            sib["got"], sib["error"] = "abort", e
        self.stats.fault("sibling_parser_straddles_the_round", True)
        self.nontrivial = True
        return sib

    def _sibling_parse(self, sib):
        if "got" in sib:
            return
        try:
            sib["env"] = sib["parser"].parse()
            sib["got"] = "commit"
        except Exception as e:
            sib["got"], sib["error"] = "abort", e

    def _sibling_verdict(self, sib, detail_base):
        rec = sib["rec"]
        now, same = None, False
        if sib.get("got") == "commit":
            try:
                now = env_snapshot(sib["env"])
                same = snapshot_equal(rec["snap"], now)
            except Exception as ex:
                now = {"error": repr(ex)}
        else:
            e = sib.get("error")
            now = {"error": [type(e).__name__, repr(getattr(e, "args", ""))[:300]]}
        self.stats.probe("sibling_parse_" + sib["when"])
        if not same:
            chunks = self._chunks_of(rec["op"]) or []
            raise Violation("sibling_parse_differs",
                            dict(detail_base, sibling_of=rec["name"], when=sib["when"],
                                 sibling_text=["\n".join(DM.render(st) for st in s)
                                               for c, s in chunks],
                                 was=_short(rec["snap"]), now=_short(now)),
                            signature=f"{self.cfg['prop']}/sibling/{sib['when']}/" +
                                      ("error" if "keys" not in (now or {}) else "differs"))

    def _compare(self, env, data, types, model, stmts, detail_base, tag):
        want_keys = list(model.nodes)
        got_keys = list(data.keys())
        ref_touched = _ref_paths(stmts, model)
        if got_keys != want_keys:
            missing = [k for k in want_keys if k not in got_keys]
            extra = [k for k in got_keys if k not in want_keys]
            t = "C17" if any(k in ref_touched for k in missing + extra) or \
                (self.cfg["prop"] == "C17" and any(st["k"] == "import" for st in stmts)) else tag
            v = self._violation(t, "node_paths_differ",
                                dict(detail_base, got=got_keys, want=want_keys),
                                "paths/" + ("missing" if missing else "extra" if extra else "order"))
            if v:
                raise v
            return
        for path, node in model.nodes.items():
            gv, gu = split_tuple(data[path])
            t = "C17" if path in ref_touched else ("C14" if tag == "C17" else tag)
            if t == "C16":
                t = "C14"
            role = "ref" if path in ref_touched else ("modified" if node["modified"] else "defined")
            if not same_value(gv, node["value"]):
                v = self._violation(t, "value_differs",
                                    dict(detail_base, node=path, got=_j(gv), want=node["value"],
                                         unit=node["unit"]),
                                    f"value/{role}/{node['type']}/{_vclass(node['value'])}")
                if v:
                    raise v
                continue
            if node["type"] == "int" and gv is not None:
                # an integer node holds integers - exactly, also after a unit conversion and
                # also element by element (a value that merely prints like one is not one)
                leaves = np.asarray(gv, dtype=object).ravel().tolist()
                odd = [x for x in leaves if isinstance(x, (bool, np.bool_, str)) or x is None
                       or float(x) != math.floor(float(x))]
                if odd:
                    v = self._violation(t, "integer_node_holds_a_non_integer",
                                        dict(detail_base, node=path, got=_j(gv), want=node["value"],
                                             unit=node["unit"]), f"nonint/{role}")
                    if v:
                        raise v
                    continue
            wu = node["unit"] if node["type"] in ("int", "float") else None
            if (gu or None) != (wu or None):
                v = self._violation(t, "unit_differs",
                                    dict(detail_base, node=path, got=gu, want=wu),
                                    f"unit/{role}")
                if v:
                    raise v
            tv = types[path]
            if type(tv).__name__ != TYPE_CLASS[node["type"]]:
                v = self._violation(t, "type_differs",
                                    dict(detail_base, node=path, got=type(tv).__name__,
                                         want=TYPE_CLASS[node["type"]]), f"type/{role}")
                if v:
                    raise v
            if node["type"] == "int":
                wp = int(node["bits"] or 32)
                if int(getattr(tv, "precision", 0) or 0) != wp or \
                        bool(getattr(tv, "unsigned", False)) != bool(node["unsigned"]):
                    v = self._violation(t, "integer_subtype_differs",
                                        dict(detail_base, node=path,
                                             got=[getattr(tv, "precision", None),
                                                  getattr(tv, "unsigned", None)],
                                             want=[wp, node["unsigned"]]), f"subtype/{role}")
                    if v:
                        raise v
            if node["type"] == "float":
                wp = int(node["bits"] or 64)
                if int(getattr(tv, "precision", 0) or 0) != wp:
                    v = self._violation(t, "float_subtype_differs",
                                        dict(detail_base, node=path,
                                             got=getattr(tv, "precision", None), want=wp),
                                        f"subtype/{role}")
                    if v:
                        raise v

    def _revalidate(self, data, model, detail_base):
        """Whatever the model predicted: the returned values satisfy every constraint the
        model holds for their nodes (values at least 1e-5 relative off are flagged)."""
        for path, node in model.nodes.items():
            if path not in data:
                continue
            gv, gu = split_tuple(data[path])
            if isinstance(gv, np.ndarray):
                gv = gv.tolist()
            if isinstance(gv, (np.floating, np.integer)):
                gv = gv.item()
            if isinstance(gv, np.bool_):
                gv = bool(gv)
            probe = dict(node, value=gv)
            try:
                if node["declared"] and gv is None and not node["has_value"]:
                    raise DM.Abort("declared node left without value", "C14", path)
                DM.check_constraints(model, probe, margin=DM.TOL_NEAR)
            except DM.Unspecified:
                continue
            except DM.Abort as a:
                t = a.prop if a.prop in ("C14", "C16") else "C16"
                v = self._violation(t, "returned_environment_violates_constraint",
                                    dict(detail_base, node=path, value=_j(gv), constraint=a.why,
                                         detail=_j(a.detail)),
                                    "returned_invalid/" + _slug(a.why))
                if v:
                    raise v
            except Exception:
                continue

    def resync(self, violation):
        return True      # a failed round is simply not appended; later rounds are independent

    # ------------------------------------------------------------------ shrinking / docs
    @classmethod
    def simplify(cls, op):
        if op.get("op") == "round":
            ch = op["chunks"]
            # merge chunks
            if len(ch) > 1 and all(c["via"] in ("string", "api") for c in ch):
                yield dict(op, chunks=[{"via": "string",
                                        "stmts": [s for c in ch for s in c["stmts"]]}])
            if op.get("io_fault"):
                yield dict(op, io_fault=None)
            if op.get("prelude"):
                yield dict(op, prelude=None)
            if op.get("with_block"):
                yield dict(op, with_block=False)
            if op.get("docs_first"):
                yield dict(op, docs_first=False)
            if op.get("straddle"):
                yield dict(op, straddle=None)
            if op.get("caller"):
                yield dict(op, caller=None)
            if op.get("settings_first") and len(ch) > 1:
                yield dict(op, settings_first=False, chunks=ch[1:])
            if op.get("base", -1) >= 0:
                yield dict(op, base=-1)
            for ci, c in enumerate(ch):
                if c["via"] != "string":
                    continue
                st = c["stmts"]
                # drop statements one at a time (and in halves)
                if len(st) > 3:
                    h = len(st) // 2
                    for cand in (st[:h], st[h:]):
                        yield dict(op, chunks=ch[:ci] + [dict(c, stmts=cand)] + ch[ci + 1:])
                for i in range(len(st)):
                    yield dict(op, chunks=ch[:ci] + [dict(c, stmts=st[:i] + st[i + 1:])]
                               + ch[ci + 1:])
                for i, s in enumerate(st):
                    for simpler in _simplify_stmt(s):
                        yield dict(op, chunks=ch[:ci] + [dict(c, stmts=st[:i] + [simpler]
                                                              + st[i + 1:])] + ch[ci + 1:])
        elif op.get("op") == "write_file" and op.get("kind") == "dip":
            st = op["stmts"]
            for i in range(len(st)):
                yield dict(op, stmts=st[:i] + st[i + 1:])

    @classmethod
    def rule(cls, prop):
        return ("runs: up to 6 parse rounds per run, each a transaction of 1-20 generated "
                "statements (split over add_string / add_file calls) on top of any earlier "
                "committed environment, interleaved with writes to in-memory files; a run is "
                "non-trivial when some round was chained on an earlier environment; distinct = "
                "distinct sequences of (op kind, abstract pre-state = number of committed "
                "environments, outcome class)")

    @classmethod
    def components(cls, prop):
        return {"real": ["dip.DIP (add_string, add_file, parse)", "dip.Environment (copy, request, "
                         "data)", "all dip.nodes / dip.lists / dip.datatypes / dip.solvers classes",
                         "units.Quantity / UnitEnvironment used by the parser"],
                "stub": ["file system behind `open` in dip.dip and dip.nodes.node_source (SimFS, "
                         "in memory, with per-open fault plans)", "DIP object names (explicit "
                         "name= instead of id())"]}


def _simplify_stmt(s):
    if s.get("k") in ("def", "mod", "option") and isinstance(s.get("value"), (int, float)) \
            and not isinstance(s.get("value"), bool) and s["value"] not in (0, 1, 2):
        yield dict(s, value=2 if isinstance(s["value"], int) else 2.0)
    if s.get("bits"):
        yield dict(s, bits="", unsigned=False)
    if s.get("k") in ("def", "mod", "inject") and s.get("indent", 0) == 0 and \
            "." in s.get("name", "") and False:
        yield s


def _ref_paths(stmts, model):
    """Paths whose value came through a reference in this round."""
    out = set()
    parents = []
    for st in stmts:
        if st["k"] in ("inject",):
            # replay the hierarchy
            pass
    # conservative: every node created or assigned by inject/import statements; computed by
    # replaying the statements on a scratch hierarchy
    env = DM.Env()
    for st in stmts:
        k = st["k"]
        if k in ("group", "def", "mod"):
            env.register(st["indent"], st["name"])
        elif k == "inject":
            out.add(env.register(st["indent"], st["name"]))
        elif k == "import":
            # imported nodes live below the importing position
            pre = ".".join(n for i, n in env.parents if i < st["indent"])
            name = st.get("name")
            root = ".".join(x for x in (pre, name) if x)
            for p in model.nodes:
                if root == "" or p == root or p.startswith(root + "."):
                    out.add(p)
            if name:
                env.register(st["indent"], name)
    return out


def _vclass(v):
    if v is None:
        return "none"
    if isinstance(v, list):
        return "array"
    if isinstance(v, bool):
        return "false" if not v else "true"
    if isinstance(v, str):
        return "str"
    if v == 0:
        return "zero"
    if v < 0:
        return "negative"
    return "positive"


def _slug(s):
    return "".join(c if c.isalnum() else "_" for c in str(s))[:48]


def _err_slug(e):
    a = e.args[0] if e.args else ""
    return _slug(str(a))[:32]


def _j(v):
    if isinstance(v, np.ndarray):
        return v.tolist()
    if isinstance(v, (np.floating, np.integer)):
        return v.item()
    if isinstance(v, np.bool_):
        return bool(v)
    return v


def _short(s):
    if "data" in s:
        return {k: _j(split_tuple(v)[0]) if not isinstance(v, tuple) else [_j(v[0]), v[1]]
                for k, v in list(s["data"].items())[:12]}
    return s


def _data_or_error(env):
    try:
        return {k: (_j(v[0]), v[1]) if isinstance(v, tuple) else _j(v)
                for k, v in env.data(format=Format.TUPLE).items()}
    except Exception as e:
        return "data() raises " + type(e).__name__
