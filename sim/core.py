"""Simulator core: seed derivation, run loop, trace replay, ddmin shrinking,
parallel batches, known findings, evidence.

A *machine* (subclass of Machine) owns the real library objects of one run and
the reference model.  A *run* is: draw a configuration from the run's PRNG,
then repeatedly draw one operation (generation may look at the model, never at
the implementation), apply it to the real code and to the model, and compare
observables.  Everything that happened is recorded in the *trace*, a list of
self-contained JSON operations; replaying a trace never touches a PRNG.
"""
import gc
import hashlib
import json
import os
import random
import sys
import time
import traceback

VERIF = os.path.dirname(os.path.dirname(os.path.abspath(__file__)))


# --------------------------------------------------------------------------- basics

class Violation(Exception):
    """The property does not hold.  `oracle` names the comparison that failed,
    `signature` identifies call site and role (used by known findings)."""

    def __init__(self, oracle, detail, signature=None):
        super().__init__(oracle, detail)
        self.oracle = oracle
        self.detail = detail
        self.signature = signature or oracle


class HarnessError(Exception):
    """The simulator itself is wrong or could not run.  Never a VIOLATION."""


def derive_rng(prop, seed, idx):
    h = hashlib.sha256(f"{prop}:{seed}:{idx}".encode()).digest()
    return random.Random(int.from_bytes(h[:16], "big"))


def jdump(obj):
    return json.dumps(obj, sort_keys=True, default=_json_default)


def _json_default(o):
    return repr(o)


class Stats:
    """Counters of one run (merged over a batch by the parent)."""

    def __init__(self):
        self.faults = {}       # kind -> [scheduled, fired]
        self.probes = {}       # name -> count
        self.ops = {}          # op kind -> count
        self.outcomes = {}     # outcome class -> count

    def fault(self, kind, fired):
        f = self.faults.setdefault(kind, [0, 0])
        f[0] += 1
        if fired:
            f[1] += 1

    def probe(self, name, n=1):
        self.probes[name] = self.probes.get(name, 0) + n

    def merge(self, other):
        for k, v in other.faults.items():
            f = self.faults.setdefault(k, [0, 0])
            f[0] += v[0]
            f[1] += v[1]
        for src, dst in ((other.probes, self.probes), (other.ops, self.ops),
                         (other.outcomes, self.outcomes)):
            for k, v in src.items():
                dst[k] = dst.get(k, 0) + v


class Machine:
    """Base class.  Subclasses set PROP-independent behaviour; the property id
    and tier come in through `config`."""

    NAME = "machine"

    def __init__(self, config):
        self.cfg = config
        self.stats = Stats()
        self.nontrivial = False    # set by the machine, see `rule` in evidence
        self.abstract = "init"     # short abstract state, for transitions

    # -- to implement -------------------------------------------------------
    @classmethod
    def gen_config(cls, rng, prop, tier):
        raise NotImplementedError

    def start(self):
        pass

    def gen_op(self, rng):
        """Next operation (JSON dict with key 'op') or None to end the run."""
        raise NotImplementedError

    def apply(self, op):
        """Run op against implementation and model; return (outcome_class,
        observable) where observable is any JSON-able value entering the event
        log.  Raise Violation when an oracle fails."""
        raise NotImplementedError

    def finish(self):
        """End-of-run invariants.  May raise Violation."""
        pass

    def stop(self):
        """Always called; restore process-global state."""
        pass

    def resync(self, violation):
        """After a *known* finding: bring the model back in line with the
        implementation for the affected object only and return True, or return
        False to end the run here."""
        return False

    @classmethod
    def simplify(cls, op):
        """Yield simpler variants of op (for the shrinker)."""
        return ()

    @classmethod
    def rule(cls, prop):
        return ""

    @classmethod
    def components(cls, prop):
        return {"real": [], "stub": []}


# --------------------------------------------------------------------------- one run

class RunResult:
    __slots__ = ("config", "trace", "violation", "vop", "vindex", "digest", "steps",
                 "stats", "signature", "transitions", "nontrivial", "known_hits",
                 "error")

    def __init__(self):
        self.config = None
        self.trace = []
        self.violation = None     # Violation or None
        self.vop = None           # kind of the op that tripped it ('finish' at end)
        self.vindex = None
        self.digest = None
        self.steps = 0
        self.stats = None
        self.signature = None
        self.transitions = ()
        self.nontrivial = False
        self.known_hits = {}
        self.error = None

    def vclass(self):
        if self.violation is None:
            return None
        return (self.violation.oracle, self.vop)


_GC_OWNED = False


def own_gc():
    """The cyclic garbage collector is a scheduler of its own (it decides when finalisers of
    unreachable cycles run).  The simulator takes it over: automatic collection is off, what
    exists after start-up is frozen (so that a collection only looks at what the runs made),
    and a collection happens at the end of every run and wherever a machine asks for one."""
    global _GC_OWNED
    if not _GC_OWNED:
        gc.collect()
        gc.freeze()
        gc.disable()
        _GC_OWNED = True


def execute(mcls, config, ops=None, rng=None, known=None, keep_events=False):
    """Run one history.  Either `ops` (replay) or `rng` (generation) is given."""
    own_gc()
    res = RunResult()
    res.config = config
    m = mcls(config)
    h = hashlib.sha256()
    events = [] if keep_events else None
    sig = []
    trans = set()
    known = known or ()
    started = False
    try:
        m.start()
        started = True
        i = 0
        limit = config.get("max_ops", 50) if ops is None else len(ops)
        while i < limit:
            if ops is None:
                op = m.gen_op(rng)
                if op is None:
                    break
                # the trace must be pure JSON: round-trip now so that replay sees
                # exactly what the generating run saw
                op = json.loads(jdump(op))
            else:
                op = ops[i]
            res.trace.append(op)
            pre = m.abstract
            kind = op.get("op", "?")
            m.stats.ops[kind] = m.stats.ops.get(kind, 0) + 1
            try:
                outcome, obs = m.apply(op)
            except Violation as v:
                kf = _match_known(known, v)
                if kf is not None:
                    res.known_hits[kf] = res.known_hits.get(kf, 0) + 1
                    h.update(jdump([kind, "known:" + kf]).encode())
                    if events is not None:
                        events.append([kind, "known:" + kf, v.detail])
                    if m.resync(v):
                        i += 1
                        res.steps += 1
                        continue
                    break
                res.violation, res.vop, res.vindex = v, kind, i
                break
            oc = outcome.split("|")[0]      # "verdict|shape": only the verdict is tallied
            m.stats.outcomes[oc] = m.stats.outcomes.get(oc, 0) + 1
            ev = jdump([kind, outcome, obs])
            h.update(ev.encode())
            if events is not None:
                events.append(json.loads(ev))
            sig.append((kind, pre, outcome))
            trans.add((pre, kind, m.abstract))
            res.steps += 1
            i += 1
        if res.violation is None:
            try:
                m.finish()
            except Violation as v:
                kf = _match_known(known, v)
                if kf is not None:
                    res.known_hits[kf] = res.known_hits.get(kf, 0) + 1
                else:
                    res.violation, res.vop, res.vindex = v, "finish", len(res.trace)
    finally:
        if started:
            m.stop()
    if res.violation is not None:
        h.update(jdump(["VIOLATION", res.violation.oracle, res.vop]).encode())
        res.violation.__traceback__ = None      # would keep the machine's frames alive
    res.digest = h.hexdigest()
    res.stats = m.stats
    res.signature = hashlib.sha256(jdump(sig).encode()).digest()[:8]
    res.transitions = trans
    res.nontrivial = bool(m.nontrivial)
    # drop the machine and collect what the run left behind now, not during a later run
    m = None
    gc.collect()
    if events is not None:
        res.error = events   # reuse slot: event list for --replay -v / selftest dumps
    return res


# One run in MARATHON_EVERY is a *marathon*: the same configuration, but a history several
# times as long as the ordinary cap (counters that overflow, caches that fill up or evict,
# containers that grow past a size boundary, the k-th repetition of an operation).  Which
# runs these are is a function of the run index alone, so the other runs' PRNG streams are
# what they would be without marathons.
MARATHON_EVERY = 40
MARATHON_FACTOR = {"dipstore": 4}


def run_generated(mcls, prop, seed, idx, tier, known=None, keep_events=False):
    rng = derive_rng(prop, seed, idx)
    config = mcls.gen_config(rng, prop, tier)
    if idx % MARATHON_EVERY == 7 and "max_ops" in config:
        config["max_ops"] = int(config["max_ops"]) * MARATHON_FACTOR.get(config.get("sub") or mcls.NAME, 10)
        config["marathon"] = True
    config = json.loads(jdump(config))
    return execute(mcls, config, None, rng, known, keep_events)


def run_trace(mcls, config, trace, known=None, keep_events=False):
    return execute(mcls, config, list(trace), None, known, keep_events)


# --------------------------------------------------------------------------- known findings

def load_known(prop):
    path = os.path.join(VERIF, "known_findings.json")
    if not os.path.exists(path):
        return []
    with open(path) as f:
        data = json.load(f)
    return [e for e in data.get("findings", []) if e.get("property") == prop]


def _match_known(known, violation):
    for e in known:
        if e.get("status") == "known" and e.get("signature") == violation.signature:
            return e["signature"]
    return None


# --------------------------------------------------------------------------- shrinking

def shrink(mcls, config, trace, vclass, budget=1500, known=None):
    """ddmin over the operation list, then per-operation simplification.  A
    candidate is accepted only if it fails the same oracle at the same kind of
    operation."""
    tests = [0]

    def fails(cand):
        if tests[0] >= budget:
            return False
        tests[0] += 1
        try:
            r = run_trace(mcls, config, cand, known)
        except Exception:
            return False
        return r.vclass() == vclass

    # cut everything after the failing operation first
    cur = list(trace)
    n = 2
    while len(cur) >= 2 and tests[0] < budget:
        chunk = max(1, len(cur) // n)
        reduced = False
        start = 0
        while start < len(cur):
            cand = cur[:start] + cur[start + chunk:]
            if cand and fails(cand):
                cur = cand
                n = max(n - 1, 2)
                reduced = True
            else:
                start += chunk
        if not reduced:
            if chunk == 1:
                break
            n = min(n * 2, len(cur))
    # try the empty prefix too (violation in finish() of an empty history)
    if len(cur) == 1 and fails([]):
        cur = []
    # per-operation simplification until fixpoint
    changed = True
    while changed and tests[0] < budget:
        changed = False
        for i in range(len(cur)):
            for simpler in mcls.simplify(cur[i]):
                simpler = json.loads(jdump(simpler))
                if simpler == cur[i]:
                    continue
                cand = cur[:i] + [simpler] + cur[i + 1:]
                if fails(cand):
                    cur = cand
                    changed = True
                    break
    return cur, tests[0]


# --------------------------------------------------------------------------- batches

class ChunkResult:
    def __init__(self):
        self.runs = 0
        self.steps = 0
        self.stats = Stats()
        self.signatures = set()
        self.nontrivial_signatures = set()
        self.transitions = set()
        self.violations = []       # list of dicts (already minimised)
        self.samples = []
        self.known_hits = {}
        self.digests = {}          # idx -> digest (only when asked)
        self.errors = []           # harness errors (text)
        self.max_trace = 0


def run_chunk(args):
    """Worker entry.  Runs indices [start, start+count)."""
    (machine_name, prop, seed, start, count, tier, want_digests, max_viol) = args
    import faulthandler
    faulthandler.enable()
    from . import registry
    mcls = registry.machine(machine_name)
    known = load_known(prop)
    out = ChunkResult()
    for idx in range(start, start + count):
        try:
            r = run_generated(mcls, prop, seed, idx, tier, known)
        except Exception:
            out.errors.append(f"run {idx}: " + traceback.format_exc())
            if len(out.errors) > 3:
                break
            continue
        out.runs += 1
        out.steps += r.steps
        out.stats.merge(r.stats)
        out.signatures.add(r.signature)
        if r.nontrivial:
            out.nontrivial_signatures.add(r.signature)
        out.transitions |= r.transitions
        out.max_trace = max(out.max_trace, len(r.trace))
        for k, v in r.known_hits.items():
            out.known_hits[k] = out.known_hits.get(k, 0) + v
        if want_digests:
            out.digests[idx] = r.digest
        if len(out.samples) < 1 and r.nontrivial and r.violation is None:
            out.samples.append({"run": idx, "config": r.config, "trace": r.trace[:12],
                                "trace_len": len(r.trace)})
        if r.violation is not None and len(out.violations) < max_viol:
            vclass = r.vclass()
            trace = r.trace[: (r.vindex + 1) if r.vop != "finish" else len(r.trace)]
            try:
                small, ntests = shrink(mcls, r.config, trace, vclass, known=known)
                rr = run_trace(mcls, r.config, small, known)
                if rr.vclass() != vclass:
                    small, rr = trace, run_trace(mcls, r.config, trace, known)
            except Exception:
                out.errors.append(f"shrink of run {idx}: " + traceback.format_exc())
                continue
            unstable = False
            if rr.violation is None:
                # re-executing the very same history in this process passes: the process is
                # no longer in the state the run started from (state kept per process by the
                # library).  Report the run as generated; the parent replays the chunk
                # prefix in a fresh interpreter.
                unstable = True
                small, ntests, rr = trace, 0, r
            out.violations.append({
                "unstable_in_process": unstable,
                "chunk_start": start,
                "property": prop, "machine": machine_name, "seed": seed, "run": idx,
                "tier": tier, "config": r.config, "trace": small,
                "original_length": len(r.trace), "shrink_tests": ntests,
                "oracle": rr.violation.oracle, "op": rr.vop,
                "signature": rr.violation.signature,
                "detail": rr.violation.detail, "digest": rr.digest,
            })
            # shrinking has replayed many histories in this process: what follows in this
            # chunk is no longer the clean chunk prefix a chunk replay would see
            break
    return out


def _chunk_child(args, conn):
    """Body of a forked child: one chunk, result through the pipe, hard exit."""
    try:
        res = run_chunk(args)
    except BaseException:
        res = ChunkResult()
        res.errors.append("chunk crashed: " + traceback.format_exc())
    try:
        conn.send(res)
        conn.close()
    finally:
        os._exit(0)


def run_batch(machine_name, prop, seed, runs, tier, workers, wall_cap, chunk=None,
              want_digests=False, max_viol=3, first=0):
    """Run indices [first, first+runs).  Every chunk runs in a child forked afresh from
    this (pristine) process, so whatever state the library keeps per process starts clean
    at every chunk boundary and a chunk is exactly repeatable in a fresh interpreter.
    The wall cap stops the submission of new chunks, never a chunk in flight."""
    import multiprocessing as mp
    from multiprocessing.connection import wait as mp_wait
    t0 = time.time()
    if chunk is None:
        chunk = max(1, min(500, runs // (workers * 8) or 1))
    todo = [(machine_name, prop, seed, s, min(chunk, first + runs - s), tier,
             want_digests, max_viol)
            for s in range(first, first + runs, chunk)]
    total = ChunkResult()
    if workers <= 1:
        for a in todo:
            if time.time() - t0 > wall_cap:
                break
            _merge(total, run_chunk(a))
            if total.violations and len(total.violations) >= max_viol:
                break
        return total
    ctx = mp.get_context("fork")
    hard = wall_cap * 3 + 120
    running = {}
    it = iter(todo)
    stop = False

    def kill_all():
        for c, pr in running.items():
            try:
                pr.kill()
            except Exception:
                pass

    try:
        while True:
            while not stop and len(running) < workers:
                if time.time() - t0 > wall_cap:
                    stop = True
                    break
                try:
                    a = next(it)
                except StopIteration:
                    stop = True
                    break
                parent, child = ctx.Pipe(duplex=False)
                sys.stdout.flush()
                sys.stderr.flush()
                pr = ctx.Process(target=_chunk_child, args=(a, child), daemon=True)
                pr.start()
                child.close()
                running[parent] = pr
            if not running:
                break
            ready = mp_wait(list(running), timeout=60)
            if time.time() - t0 > hard:
                kill_all()
                raise HarnessError(f"batch exceeded hard wall cap of {hard:.0f}s")
            for c in ready:
                pr = running.pop(c)
                try:
                    res = c.recv()
                except EOFError:
                    res = ChunkResult()
                    res.errors.append("a chunk process died without a result")
                c.close()
                pr.join(5)
                _merge(total, res)
            if len(total.violations) >= max_viol or len(total.errors) > 3:
                stop = True
    finally:
        kill_all()
    return total


def _merge(total, part):
    total.runs += part.runs
    total.steps += part.steps
    total.stats.merge(part.stats)
    total.signatures |= part.signatures
    total.nontrivial_signatures |= part.nontrivial_signatures
    total.transitions |= part.transitions
    total.violations.extend(part.violations)
    if len(total.samples) < 3:
        total.samples.extend(part.samples[: 3 - len(total.samples)])
    for k, v in part.known_hits.items():
        total.known_hits[k] = total.known_hits.get(k, 0) + v
    total.digests.update(part.digests)
    total.errors.extend(part.errors)
    total.max_trace = max(total.max_trace, part.max_trace)


# --------------------------------------------------------------------------- replay files

def write_replay(v):
    d = os.path.join(VERIF, "replays", v["property"])
    os.makedirs(d, exist_ok=True)
    path = os.path.join(d, f"{v['seed']}-{v['run']}.json")
    with open(path, "w") as f:
        json.dump(v, f, indent=1, sort_keys=True, default=_json_default)
        f.write("\n")
    return path


def load_replay(path):
    with open(path) as f:
        return json.load(f)


def replay_chunk(mcls, prop, seed, tier, start, fail_idx, known=None):
    """Re-run run indices start..fail_idx in this process (the replay of a violation that
    needs the preceding runs of its chunk, i.e. state the library keeps per process)."""
    last = None
    for idx in range(start, fail_idx + 1):
        last = run_generated(mcls, prop, seed, idx, tier, known)
        if last.violation is not None and idx < fail_idx:
            return idx, last
    return fail_idx, last
