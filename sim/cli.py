"""Command line of the checks:  ./check <property> --tier quick|thorough
                               ./check <property> --replay <file> [-v]
                               ./check <property> --digests N [--workers W]
Exit 0: property held on everything explored (KNOWN-FINDING lines allowed).
Exit 1: `VIOLATION property=<id> replay=<path>` printed.
Exit 2: harness error (never a VIOLATION line)."""
import argparse
import json
import os
import subprocess
import sys
import time
import traceback

from . import bootstrap

VERIF = os.path.dirname(os.path.dirname(os.path.abspath(__file__)))
CHECK = os.path.join(VERIF, "check")


def say(*a):
    print(*a, flush=True)


def main(argv=None):
    ap = argparse.ArgumentParser()
    ap.add_argument("prop")
    ap.add_argument("--tier", default=os.environ.get("VERIF_TIER") or "quick",
                    choices=["quick", "thorough"])
    ap.add_argument("--replay")
    ap.add_argument("-v", action="store_true")
    ap.add_argument("--digests", type=int)
    ap.add_argument("--first", type=int, default=0)
    ap.add_argument("--runs", type=int)
    ap.add_argument("--cap", type=float)
    ap.add_argument("--workers", type=int, default=min(16, os.cpu_count() or 1))
    ap.add_argument("--no-selftest", action="store_true")
    ap.add_argument("--no-evidence", action="store_true")
    ap.add_argument("--show", type=int, help="print the trace of run index N and exit")
    args = ap.parse_args(argv)
    try:
        return _main(args)
    except SystemExit:
        raise
    except BaseException:
        sys.stdout.flush()
        traceback.print_exc()
        say(f"HARNESS-ERROR property={args.prop}")
        return 2


def _main(args):
    src = bootstrap.activate()
    from . import core, registry
    prop = args.prop
    if prop not in registry.PROPS:
        say(f"unknown or not-applicable property {prop}")
        return 2
    spec = registry.PROPS[prop]
    mname = spec["machine"]
    mcls = registry.machine(mname)
    seed = int(os.environ.get("VERIF_SEED") or 0)
    if hasattr(mcls, "prepare"):
        # reference observations that need a process which has not executed any history
        mcls.prepare(prop)

    if args.replay:
        return do_replay(core, mcls, prop, args.replay, args.v)

    if args.show is not None:
        r = core.run_generated(mcls, prop, seed, args.show, args.tier,
                               core.load_known(prop), keep_events=True)
        say(json.dumps({"config": r.config, "trace": r.trace, "events": r.error,
                        "violation": None if r.violation is None else
                        [r.violation.oracle, r.violation.detail],
                        "digest": r.digest}, indent=1, default=repr))
        return 0

    if args.digests is not None:
        t = core.run_batch(mname, prop, seed, args.digests, args.tier, args.workers,
                           wall_cap=3600, want_digests=True, first=args.first, chunk=25)
        if t.errors:
            sys.stderr.write("\n".join(t.errors))
            return 2
        say("DIGESTS " + json.dumps({str(k): v for k, v in sorted(t.digests.items())}))
        return 0

    tier = args.tier
    budget = dict(spec[tier])
    if args.runs:
        budget["runs"] = args.runs
    if args.cap:
        budget["cap"] = args.cap
    say(f"VERIF_SEED={seed} property={prop} machine={mname} tier={tier} "
        f"runs={budget['runs']} workers={args.workers} src={src} "
        f"python={sys.version.split()[0]} hashseed={os.environ.get('PYTHONHASHSEED')}")
    t0 = time.time()
    exit_code = 0
    viol_lines = []

    # 0. the search (first: chunks are forked from this still pristine process) ---------------------------------------------------------------------
    t1 = time.time()
    total = core.run_batch(mname, prop, seed, budget["runs"], tier, args.workers,
                           wall_cap=budget["cap"])
    search_s = time.time() - t1
    if total.errors:
        say(f"HARNESS-ERROR property={prop} ({len(total.errors)} errors)")
        sys.stderr.write("\n".join(total.errors[:3]) + "\n")
        return 2

    # 1. known findings / fixed findings -----------------------------------------
    known = core.load_known(prop)
    known_report = []
    for e in known:
        rep = e.get("reproducer")
        if not rep:
            continue
        r = core.run_trace(mcls, rep["config"], rep["trace"], known=None)
        still = r.violation is not None and r.violation.signature == e["signature"]
        if e["status"] == "known":
            if still:
                say(f"KNOWN-FINDING: property={prop} {e['what']} [{e['signature']}]")
                known_report.append({"signature": e["signature"], "still_fails": True})
            else:
                say(f"note: known finding no longer reproduces: {e['signature']}")
                known_report.append({"signature": e["signature"], "still_fails": False})
        elif e["status"] == "fixed" and r.violation is not None:
            v = {"property": prop, "machine": mname, "seed": seed,
                 "run": "fixed-" + e["signature"].replace("/", "_"), "tier": tier,
                 "config": rep["config"], "trace": rep["trace"],
                 "oracle": r.violation.oracle, "op": r.vop,
                 "signature": r.violation.signature, "detail": r.violation.detail,
                 "digest": r.digest, "note": "regression of a fixed finding"}
            path = core.write_replay(v)
            viol_lines.append(f"VIOLATION property={prop} replay={path}")

    # 2. corpus of pinned histories ------------------------------------------------
    corpus_n = 0
    cdir = os.path.join(VERIF, "corpus", prop)
    if os.path.isdir(cdir):
        for fn in sorted(os.listdir(cdir)):
            if not fn.endswith(".json"):
                continue
            c = core.load_replay(os.path.join(cdir, fn))
            if c.get("kind") in ("pure", "chunk"):
                continue      # not a single replayable history
            r = core.run_trace(mcls, c["config"], c["trace"], known=known)
            corpus_n += 1
            if r.violation is not None:
                v = {"property": prop, "machine": mname, "seed": seed,
                     "run": "corpus-" + fn[:-5], "tier": tier, "config": c["config"],
                     "trace": r.trace[: (r.vindex + 1) if r.vop != "finish" else None],
                     "oracle": r.violation.oracle, "op": r.vop,
                     "signature": r.violation.signature, "detail": r.violation.detail,
                     "digest": r.digest}
                path = core.write_replay(v)
                viol_lines.append(f"VIOLATION property={prop} replay={path}")

    # 3. determinism self-test -------------------------------------------------------
    det = {"runs": 0, "executions": 0, "mismatches": 0}
    if not args.no_selftest:
        det = selftest(core, mname, prop, seed, tier, budget["selftest"], args.workers)
        say(f"selftest: {det['runs']} run indices x {det['executions']} executions, "
            f"mismatches={det['mismatches']}")
        if det["mismatches"]:
            say(f"HARNESS-ERROR property={prop} nondeterministic runs: {det['examples']}")
            return 2

    # 5. violations -> replay files, confirmed in a fresh interpreter -----------------------
    seen = set()
    unreproducible = []
    for v in total.violations:
        key = (v["oracle"], v["op"], v["signature"])
        if key in seen:
            continue
        seen.add(key)
        path = core.write_replay(v)
        ok, out = (False, "not stable within the finding process") if v.get("unstable_in_process") \
            else confirm_fresh(path, prop)
        if not ok:
            # the single history does not fail on its own: it needs what the earlier runs of
            # its chunk left behind in the process.  Replay the chunk prefix instead.
            cv = dict(v, kind="chunk", run=f"{v['run']}-chunk", start=v["chunk_start"],
                      fail_idx=v["run"],
                      note="fails only after the preceding runs of its chunk in the same "
                           "process (state kept per process by the library); the single "
                           "history in 'trace' is informational")
            cpath = core.write_replay(cv)
            ok2, out2 = confirm_fresh(cpath, prop, chunk=True)
            if not ok2:
                # depends on something the simulator does not control (e.g. which address the
                # allocator hands out): never reported as a VIOLATION, because its replay file
                # would not reproduce; a harness error if nothing else was found
                unreproducible.append(f"replay {path} did not reproduce in a fresh interpreter, "
                                      f"neither alone nor with its chunk prefix:\n{out}\n{out2}")
                say(f"note: a failing history of run {v['run']} (oracle={v['oracle']}) could not be "
                    "reproduced in a fresh interpreter; not reported")
                continue
            path = cpath
            say("note: reproduced only together with the preceding runs of its chunk "
                "(process-level state)")
        viol_lines.append(f"VIOLATION property={prop} replay={path}")
        say(f"violation: oracle={v['oracle']} op={v['op']} signature={v['signature']} "
            f"run={v['run']} ops={len(v['trace'])} (from {v['original_length']})")
        say("  detail: " + json.dumps(v["detail"], default=repr)[:1500])
    if viol_lines:
        exit_code = 1
    elif unreproducible:
        say(f"HARNESS-ERROR property={prop} " + unreproducible[0])
        return 2

    # 5b. stateless clauses riding along (exhaustive small-range enumeration) ------------------
    pure_info = None
    pure_fn = registry.pure(prop)
    if pure_fn is not None:
        ncases, bad = pure_fn() if tier == "quick" else pure_fn(80, 12)
        pure_info = {"technique": "exhaustive small-range enumeration, not simulation",
                     "cases": ncases, "violation": bad}
        if bad is not None:
            v = {"property": prop, "machine": mname, "seed": seed, "run": "pure", "tier": tier,
                 "kind": "pure", "config": {}, "trace": [], "oracle": "pure_clause",
                 "op": "pure", "signature": "C20/pure/" + bad["what"], "detail": bad,
                 "digest": ""}
            path = core.write_replay(v)
            viol_lines.append(f"VIOLATION property={prop} replay={path}")
            say("violation (pure clause): " + json.dumps(bad, default=repr)[:800])
            exit_code = 1

    # 6. evidence -----------------------------------------------------------------------
    wall = time.time() - t0
    dead = sorted(k for k, (s, f) in total.stats.faults.items() if f == 0)
    if dead:
        say(f"warning: fault kinds scheduled but never fired: {dead}")
    ev = {
        "property_id": prop, "tier": tier, "seed": seed, "level": spec["level"],
        "wall_s": round(wall, 2), "violations": len(viol_lines),
        "coverage": {
            "evaluations": total.runs,
            "steps": total.steps,
            "runs_per_hour": int(total.runs / search_s * 3600) if search_s > 0 else 0,
            "steps_per_hour": int(total.steps / search_s * 3600) if search_s > 0 else 0,
            "seeds": f"VERIF_SEED={seed}, run indices 0..{budget['runs'] - 1} "
                     f"({total.runs} executed)",
            "distinct_nontrivial": len(total.nontrivial_signatures),
            "distinct_runs": len(total.signatures),
            "distinct_transitions": len(total.transitions),
            "rule": mcls.rule(prop),
            "samples": total.samples[:3],
            "faults": {k: {"scheduled": v[0], "fired": v[1]}
                       for k, v in sorted(total.stats.faults.items())},
            "faults_never_fired": dead,
            "probes": dict(sorted(total.stats.probes.items())),
            "operations": dict(sorted(total.stats.ops.items())),
            "outcomes": dict(sorted(total.stats.outcomes.items())),
            "longest_trace": total.max_trace,
            "determinism": det,
            "corpus_histories_replayed": corpus_n,
            "known_findings": known_report,
            "known_findings_hit": total.known_hits,
            "components": mcls.components(prop),
            "simulated_time": "none - the anchored code has no clock, timer or scheduler; "
                              "logical steps (operations applied) are reported instead",
            "workers": args.workers,
            "search_wall_s": round(search_s, 2),
            "pure_clauses": pure_info,
        },
        "assumptions": [
            "failures are injected only at the seams the property quantifies over (input text, "
            "atom/callback/registration/file seams); no asynchronous exception between two "
            "arbitrary bytecodes",
            "oracles read public observables only",
            "a clean batch is evidence over the sampled histories, not proof",
        ],
    }
    if not args.no_evidence:
        os.makedirs(os.path.join(VERIF, "evidence"), exist_ok=True)
        with open(os.path.join(VERIF, "evidence", f"{prop}.json"), "w") as f:
            # strict JSON: non-finite floats (inf / nan magnitudes in samples) as strings
            json.dump(_strict(ev), f, indent=1, sort_keys=True, default=repr, allow_nan=False)
            f.write("\n")
    say(f"done: runs={total.runs} steps={total.steps} distinct_nontrivial="
        f"{len(total.nontrivial_signatures)} transitions={len(total.transitions)} "
        f"wall={wall:.1f}s known_hits={total.known_hits}")
    for line in viol_lines:
        say(line)
    return exit_code


def _strict(x):
    if isinstance(x, float) and (x != x or x in (float("inf"), float("-inf"))):
        return repr(x)
    if isinstance(x, dict):
        return {str(k): _strict(v) for k, v in x.items()}
    if isinstance(x, (list, tuple)):
        return [_strict(v) for v in x]
    return x


def do_replay(core, mcls, prop, path, verbose):
    rep = core.load_replay(path)
    if rep.get("kind") == "pure":
        from . import registry
        ncases, bad = registry.pure(prop)(80, 12)
        if bad is None:
            say(f"REPLAY property={prop} result=pass (pure clauses, {ncases} cases)")
            return 0
        say(f"REPLAY property={prop} result=violation oracle=pure_clause op=pure")
        say("  detail: " + json.dumps(bad, default=repr)[:3000])
        say(f"VIOLATION property={prop} replay={path}")
        return 1
    if rep.get("kind") == "chunk":
        idx, r = core.replay_chunk(mcls, prop, rep["seed"], rep["tier"], rep["start"],
                                   rep["fail_idx"])
        if r is None or r.violation is None:
            say(f"REPLAY property={prop} result=pass (chunk {rep['start']}..{rep['fail_idx']})")
            return 0
        say(f"REPLAY property={prop} result=violation oracle={r.violation.oracle} op={r.vop} "
            f"signature={r.violation.signature} run={idx} "
            f"(chunk {rep['start']}..{rep['fail_idx']})")
        say("  detail: " + json.dumps(r.violation.detail, default=repr)[:3000])
        say(f"VIOLATION property={prop} replay={path}")
        return 1
    r = core.run_trace(mcls, rep["config"], rep["trace"], known=None, keep_events=True)
    if verbose:
        for i, e in enumerate(r.error or []):
            say(f"  [{i}] {json.dumps(e, default=repr)[:400]}")
    if r.violation is None:
        say(f"REPLAY property={prop} result=pass digest={r.digest}")
        return 0
    say(f"REPLAY property={prop} result=violation oracle={r.violation.oracle} op={r.vop} "
        f"signature={r.violation.signature} digest={r.digest}")
    say("  detail: " + json.dumps(r.violation.detail, default=repr)[:3000])
    say(f"VIOLATION property={prop} replay={path}")
    return 1


def confirm_fresh(path, prop, chunk=False):
    rep = None
    try:
        with open(path) as f:
            rep = json.load(f)
    except Exception as e:
        return False, str(e)
    env = dict(os.environ, PYTHONHASHSEED="4711")
    p = subprocess.run([CHECK, prop, "--replay", path], capture_output=True, text=True,
                       env=env, timeout=600)
    want = f"oracle={rep['oracle']} op={rep['op']} "
    ok = p.returncode == 1 and want in p.stdout and \
        (chunk or f"digest={rep['digest']}" in p.stdout)
    return ok, p.stdout + p.stderr


def selftest(core, mname, prop, seed, tier, n, workers):
    """Same run indices executed four times: twice in this process, and in two fresh
    interpreters with other hash seeds and other worker counts."""
    procs = []
    for hs, w in (("12345", workers), ("1", 3)):
        env = dict(os.environ, PYTHONHASHSEED=hs, VERIF_SEED=str(seed), VERIF_TIER=tier)
        procs.append(subprocess.Popen(
            [CHECK, prop, "--tier", tier, "--digests", str(n), "--workers", str(w)],
            stdout=subprocess.PIPE, stderr=subprocess.PIPE, text=True, env=env))
    a = core.run_batch(mname, prop, seed, n, tier, 1, wall_cap=3600, want_digests=True)
    b = core.run_batch(mname, prop, seed, n, tier, 1, wall_cap=3600, want_digests=True)
    if a.errors or b.errors:
        raise core.HarnessError("selftest run failed:\n" + "\n".join(a.errors + b.errors))
    logs = [a.digests, b.digests]
    for p in procs:
        try:
            out, err = p.communicate(timeout=1800)
        except subprocess.TimeoutExpired:
            p.kill()
            raise core.HarnessError("selftest subprocess timed out")
        line = [l for l in out.splitlines() if l.startswith("DIGESTS ")]
        if p.returncode != 0 or not line:
            raise core.HarnessError(f"selftest subprocess failed rc={p.returncode}:\n{err[-2000:]}")
        logs.append({int(k): v for k, v in json.loads(line[0][8:]).items()})
    mism = []
    for i in range(n):
        vals = {l.get(i) for l in logs}
        if len(vals) != 1:
            mism.append(i)
    return {"runs": n, "executions": len(logs), "mismatches": len(mism),
            "examples": mism[:5],
            "how": "2x in-process serial, 1x fresh interpreter PYTHONHASHSEED=12345 with "
                   f"{workers} workers, 1x fresh interpreter PYTHONHASHSEED=1 with 3 workers"}


if __name__ == "__main__":
    sys.exit(main())
