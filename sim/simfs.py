"""In-memory file system installed as the module-level name `open` of the two DIP
modules that read files (scinumtools.dip.dip and scinumtools.dip.nodes.node_source).
All paths are absolute below /simfs (a directory that does not exist on the real
disk), so os.path.isabs / realpath stay real and purely lexical.

Per-open fault plans: ENOENT, EACCES, EIO raised from read(), undecodable bytes, and
"torn:<permille>" - the reader gets only a prefix of the content, cut at an arbitrary
character (a file caught while another process was still writing it).
"""
import errno
import io

import scinumtools.dip.dip as _dip_mod
import scinumtools.dip.nodes.node_source as _src_mod

ROOT = "/simfs/"


class _EIOFile(io.StringIO):
    def read(self, *a, **k):
        raise OSError(errno.EIO, "Input/output error (injected)")


class SimFS:
    def __init__(self):
        self.files = {}        # path -> text
        self.versions = {}     # path -> int
        self.plan = {}         # path -> [fault kind for 1st open, 2nd open, ...]
        self.opens = []        # log of (path, outcome)
        self.fired = []        # faults that actually fired
        self.installed = False

    # -- content -----------------------------------------------------------------
    def write(self, path, text):
        assert path.startswith(ROOT), path
        self.files[path] = text
        self.versions[path] = self.versions.get(path, 0) + 1

    def snapshot(self):
        return dict(self.files)

    # -- the seam -----------------------------------------------------------------
    def open(self, path, mode="r", *args, **kwargs):
        path = str(path)
        if not path.startswith(ROOT):
            self.opens.append((path, "outside"))
            raise FileNotFoundError(errno.ENOENT, "No such file or directory (simfs)", path)
        if "w" in mode or "a" in mode or "+" in mode:
            raise PermissionError(errno.EACCES, "simfs is read-only for the library", path)
        fault = None
        q = self.plan.get(path)
        if q:
            fault = q.pop(0)
        if fault == "ENOENT" or (fault is None and path not in self.files):
            if fault:
                self.fired.append((path, fault))
            self.opens.append((path, "ENOENT"))
            raise FileNotFoundError(errno.ENOENT, "No such file or directory", path)
        if fault == "EACCES":
            self.fired.append((path, fault))
            self.opens.append((path, "EACCES"))
            raise PermissionError(errno.EACCES, "Permission denied", path)
        if fault == "EIO":
            self.fired.append((path, fault))
            self.opens.append((path, "EIO"))
            return _EIOFile(self.files.get(path, ""))
        if fault == "undecodable":
            self.fired.append((path, fault))
            self.opens.append((path, "undecodable"))
            raw = io.BytesIO(b"a float = 1\n\xff\xfe\xfa broken \x80\n")
            return io.TextIOWrapper(raw, encoding="utf-8")
        if isinstance(fault, str) and fault.startswith("torn:"):
            text = self.files[path]
            cut = len(text) * int(fault.split(":")[1]) // 1000
            self.fired.append((path, "torn"))
            self.opens.append((path, "torn"))
            return io.StringIO(text[:cut])
        self.opens.append((path, "ok"))
        return io.StringIO(self.files[path])

    def install(self):
        _dip_mod.open = self.open
        _src_mod.open = self.open
        self.installed = True

    def uninstall(self):
        for m in (_dip_mod, _src_mod):
            if "open" in m.__dict__:
                del m.__dict__["open"]
        self.installed = False
