"""C09 — temporary custom units never outlive their scope.

A LIFO stack of real UnitEnvironment scopes over the real process-global
tables.  Operations: open (with the bad entry swept over every position of the
units dict), close, exception unwinding through several scopes, use of a
symbol inside / outside, DIP parses (which open scopes implicitly) at any
nesting depth, with faults.

Oracle after every operation: the tables equal `content before the scope
opened` as soon as that scope has ended — normally, by an exception in the
body, or because registration failed part-way; while scopes are open the
baseline part of the table is untouched and exactly the symbols of the open
scopes are present and convert with their defined factor.
"""
import json
import math

from .core import Machine, Violation
from . import tables

from scinumtools.units import Quantity, UnitEnvironment
from scinumtools.units.unit_types import UnitType, StandardUnitType, TemperatureUnitType
from scinumtools.units import settings as S
from scinumtools.dip import DIP

DIMS = {
    "m": [1, 0, 0, 0, 0, 0, 0, 0], "g": [0, 1, 0, 0, 0, 0, 0, 0],
    "s": [0, 0, 1, 0, 0, 0, 0, 0], "m/s": [1, 0, -1, 0, 0, 0, 0, 0],
    "g*m2/s2": [2, 1, -2, 0, 0, 0, 0, 0],
    "K": [0, 0, 0, 1, 0, 0, 0, 0],
}
# dimensionless custom units are not generated: value() of a dimensionless quantity has
# no base expression to convert to, so "converts with its defined factor" is unobservable
BASE_EXPR = {"m": "m", "g": "g", "s": "s", "m/s": "m/s", "g*m2/s2": "g*m2/s2", "K": "K"}


class CustomTypeA(UnitType):
    def _istype(self):
        return False


class CustomTypeB(UnitType):
    def _istype(self):
        return False


class CustomTypeA2(CustomTypeA):
    """A subclass of a class that an enclosing scope may have registered: whatever is kept *on*
    a conversion class (a counter, a flag) is found on the subclass too, through the MRO."""
    def _istype(self):
        return False


class CustomTypeG(UnitType):
    """A conversion class that really converts: units defined with it are gauge units with an
    offset of 10 base units, and while it is registered it also takes over Celsius.  Once its
    scope has ended none of this may be observable any more."""
    def _istype(self):
        units = self.baseunits1.units + self.baseunits2.units
        mine = False
        for u in units:
            try:
                if S.UNIT_STANDARD[u].definition is CustomTypeG:
                    mine = True
            except Exception:
                pass
        if mine or "Cel" in units:
            self.conversion = ("_convert_gauge",)
            return True
        return False

    def _convert_gauge(self, value):
        return value + 10.0


# "S"/"T": a custom unit may also name a *built-in* conversion class as its definition;
# the scope must then leave that class in the table when it ends
CUSTOM_TYPES = {"A": CustomTypeA, "B": CustomTypeB, "G": CustomTypeG, "A2": CustomTypeA2,
                "S": StandardUnitType,
                "T": TemperatureUnitType}
BUILTIN_TYPES = ("S", "T")

_CANDIDATES = ["close", "open", "units", "foo", "qux", "zork", "vex", "nub", "zyx", "abc", "qqq", "www", "yyx", "zzx",
               "jjx", "vvx", "xqx", "qxx", "eex", "oox", "iix", "woof", "jiffy", "zap", "wib",
               "quux", "vork", "zub", "wex", "jux", "vob", "zix", "wox", "jax", "vix"]

_POOL = None


def all_names():
    """Every symbol and prefix+symbol combination of the current tables (public
    reads only)."""
    out = set()
    prefixes = list(S.UNIT_PREFIXES.keys())
    for sym in S.UNIT_STANDARD.keys():
        out.add(sym)
        p = S.UNIT_STANDARD[sym].prefixes
        if p is True:
            out.update(x + sym for x in prefixes)
        elif isinstance(p, list):
            out.update(x + sym for x in p)
    return out


def fresh_pool():
    """Alphabetic symbols that the baseline parser rejects, none a suffix of another
    (the unit parser matches the longest table symbol at the *end* of the text)."""
    global _POOL
    if _POOL is None:
        names = all_names()
        prefixes = list(S.UNIT_PREFIXES.keys())
        pool = []
        for c in _CANDIDATES:
            if c in names or any(p + c in names for p in prefixes):
                continue
            if any(c.endswith(o) or o.endswith(c) for o in pool):
                continue
            try:
                Quantity(1, c)
                continue            # accepted at baseline: unusable as "unknown outside"
            except Exception:
                pass
            pool.append(c)
        _POOL = pool
    return _POOL


CLASH_TABLE = ["m", "g", "kg", "J", "erg", "[c]", "[pi]", "Cel", "dB"]   # kg is not a row but g with prefix
CLASH_PREFIXED = ["km", "dam", "mmol", "ks", "uK", "mrad", "kpc", "Gt"]


class ScopeFault(Exception):
    pass


EXC = {"ValueError": ValueError, "ScopeFault": ScopeFault, "KeyboardInterrupt": KeyboardInterrupt,
       "ZeroDivisionError": ZeroDivisionError, "SystemExit": SystemExit}


class InterruptingUnits(dict):
    """A units mapping that is being produced lazily: handing over the k-th entry fails
    with a BaseException (KeyboardInterrupt while the user waits, SystemExit from a
    loader).  The mapping is the registration seam of UnitEnvironment."""

    def __init__(self, data, k, exc):
        super().__init__(data)
        self._k, self._exc = k, exc

    def items(self):
        for n, kv in enumerate(list(super().items())):
            if n == self._k:
                raise self._exc("interrupted while units were being registered")
            yield kv


def build_units(spec):
    """Materialise the `units` argument of UnitEnvironment from its JSON description."""
    units = {}
    for u in spec:
        if u.get("form") == "quantity":
            q = Quantity(u["mag"], BASE_EXPR[u["dim"]]) if BASE_EXPR[u["dim"]] else Quantity(u["mag"])
            units[u["sym"]] = q
            continue
        d = {}
        if not u.get("no_magnitude"):
            d["magnitude"] = u["mag"]
        if not u.get("no_dimensions"):
            d["dimensions"] = list(DIMS[u["dim"]])
        if u.get("prefixes") is not None:
            d["prefixes"] = u["prefixes"]
        if u.get("defn") is not None:
            d["definition"] = CUSTOM_TYPES[u["defn"]] if u["defn"] in CUSTOM_TYPES else u["defn"]
        if u.get("name"):
            d["name"] = u["name"]
        units[u["sym"]] = d
    return units


class UnitScopeMachine(Machine):
    NAME = "unitscope"

    @classmethod
    def gen_config(cls, rng, prop, tier):
        fault_free = rng.random() < 0.25
        bad_kinds = [k for k in ("dup_table", "dup_enclosing", "clash_prefixed",
                                 "prefixed_clash_table", "no_magnitude", "no_dimensions",
                                 "unknown_prefix", "interrupt") if rng.random() < 0.6]
        return {
            "prop": prop, "tier": tier,
            "max_ops": rng.randint(4, 25) if tier == "quick" else rng.randint(6, 40),
            "max_depth": rng.randint(1, 4),
            "p_bad": 0.0 if fault_free else rng.choice([0.15, 0.3, 0.5]),
            "bad_kinds": bad_kinds,
            "p_raise": 0.0 if fault_free else rng.choice([0.0, 0.1, 0.2]),
            "interrupts": rng.random() < 0.3,
            "dip": rng.random() < 0.6,
            "p_dip_fault": 0.0 if fault_free else rng.choice([0.2, 0.4, 0.6]),
            "quantity_form": rng.random() < 0.5,
            "custom_types": rng.random() < 0.5,
            "prefix_units": rng.random() < 0.5,
            "sweep": (not fault_free) and rng.random() < 0.5,
            "weights": {"open": rng.choice([2, 3, 4]), "close": rng.choice([1, 2, 3]),
                        "use": rng.choice([1, 2]), "raise": 1, "dip": rng.choice([1, 2, 3])},
        }

    # -- lifecycle ----------------------------------------------------------------
    def start(self):
        self.base = tables.baseline()
        if self.base.restore():
            self.stats.probe("leak_from_previous_run_repaired")
        self.pool = list(fresh_pool())
        self.stack = []        # [{env, units(list of spec), pre(snapshot)}]
        self.known_syms = {}   # sym -> spec of every symbol ever attempted
        self.unit_objects = {}  # description -> the dict object handed to UnitEnvironment
        self.closed_specs = []  # descriptions of scopes that were opened and closed
        self.queue = []
        self.swept = False
        self.ndip = 0
        self.abstract = "d0"
        self.had_fault = False

    def stop(self):
        # close whatever is still open, then make sure the next run starts clean
        while self.stack:
            sc = self.stack.pop()
            try:
                sc["env"].close()
            except Exception:
                pass
        self.base.restore()

    def finish(self):
        while self.stack:
            self._close("finish")
        d = tables.diff(self.base.snap, tables.snapshot())
        if d:
            raise Violation("tables_differ_from_baseline_at_end", d,
                            signature="C09/leak/end_of_run")

    # -- model helpers ----------------------------------------------------------------
    def open_symbols(self):
        out = {}
        for sc in self.stack:
            for u in sc["units"]:
                out[u["sym"]] = u
        return out

    def _fresh(self, rng, n):
        used = {x.strip() for x in self.open_symbols()}
        # look-alikes of prefixed forms of earlier custom units ('kqux' after a scope that had
        # 'qux' with prefix k has ended): legal whenever no open symbol is a suffix of them
        alike = [p + c for c in self.pool[:8] for p in ("k", "M", "m")]
        cands = [c for c in self.pool + alike if c not in used
                 and not any(c.endswith(o) or o.endswith(c) for o in used)]
        rng.shuffle(cands)
        out = []
        for c in cands:
            if not any(c.endswith(o) or o.endswith(c) for o in out):
                out.append(c)
            if len(out) >= n:
                break
        return out

    def _spec(self, rng, sym):
        dim = rng.choice(list(DIMS))
        u = {"sym": sym, "mag": rng.choice([2.0, 0.5, 1e3, 3.25, 1e-6, 12.0]), "dim": dim,
             "form": "dict", "prefixes": None, "defn": None}
        if self.cfg["quantity_form"] and rng.random() < 0.4:
            u["form"] = "quantity"
        else:
            if self.cfg["prefix_units"] and rng.random() < 0.4:
                u["prefixes"] = rng.choice([True, ["k", "M"], ["m"], False])
            if self.cfg["custom_types"] and rng.random() < 0.3:
                u["defn"] = rng.choice(["A", "B", "G", "G", "S", "T", "A2", "A"])
            elif rng.random() < 0.15:
                u["defn"] = "2*m"
            if rng.random() < 0.2:
                u["name"] = "custom " + sym
            if not u["prefixes"] and rng.random() < 0.06:
                # a symbol written with a blank in front: legal, the parser skips the blank
                u["sym"] = " " + sym
        return u

    def _bad_entry(self, rng, kind, reserved=None):
        form = "quantity" if rng.random() < 0.4 else "dict"   # both ways of giving a unit
        if kind == "dup_table":
            s = rng.choice(["m", "g", "J", "erg", "[c]", "[pi]", "Cel", "ft"])
            return {"sym": s, "mag": 2.0, "dim": "m", "form": form, "prefixes": None,
                    "defn": None}
        if kind == "dup_enclosing":
            syms = list(self.open_symbols())
            if not syms:
                return None
            return {"sym": rng.choice(syms), "mag": 2.0, "dim": "m", "form": form,
                    "prefixes": None, "defn": None}
        if kind == "clash_prefixed":
            return {"sym": rng.choice(CLASH_PREFIXED), "mag": 2.0, "dim": "m", "form": "dict",
                    "prefixes": None, "defn": rng.choice([None, "A"])}
        if kind == "prefixed_clash_table":
            # ol with prefix m -> mol ; ol with prefix k is fine, the clash is only
            # seen by the final uniqueness check
            s, p = rng.choice([("ol", ["m"]), ("in", ["m"]), ("pc", ["k"]), ("d", ["c"])])
            return {"sym": s, "mag": 2.0, "dim": "m", "form": "dict", "prefixes": p,
                    "defn": None}
        if kind == "no_magnitude":
            f = [reserved] if reserved else []
            if not f:
                return None
            return {"sym": f[0], "mag": 2.0, "dim": "m", "form": "dict", "prefixes": None,
                    "defn": rng.choice([None, "B"]), "no_magnitude": True}
        if kind == "no_dimensions":
            f = [reserved] if reserved else []
            if not f:
                return None
            return {"sym": f[0], "mag": 2.0, "dim": "m", "form": "dict", "prefixes": None,
                    "defn": None, "no_dimensions": True}
        if kind == "unknown_prefix":
            f = [reserved] if reserved else []
            if not f:
                return None
            return {"sym": f[0], "mag": 2.0, "dim": "m", "form": "dict",
                    "prefixes": ["k", "Q"], "defn": None}
        return None

    # -- generation ------------------------------------------------------------------------
    def gen_op(self, rng):
        if self.queue:
            return self.queue.pop(0)
        cfg = self.cfg
        w = dict(cfg["weights"])
        if len(self.stack) >= cfg["max_depth"]:
            w["open"] = 0.3
        if not self.stack:
            w["close"] = 0
            w["raise"] = 0
        if not cfg["dip"]:
            w["dip"] = 0
        if not cfg["p_raise"]:
            w["raise"] = 0
        if not self.known_syms:
            w["use"] = 0
        kinds = sorted(w)
        kind = rng.choices(kinds, [w[k] for k in kinds])[0]
        if self.stack and rng.random() < 0.04:
            # the caller goes on using the mapping it opened the scope with: empties it, takes
            # an entry out, adds one - the open scope is not a view of that mapping
            return {"op": "mutate_mapping", "how": rng.choice(["clear", "pop", "add"])}
        if rng.random() < 0.04:
            # the collector runs now (the simulator owns it): finalisers of scopes that were
            # closed, refused or abandoned earlier fire while other scopes are open
            return {"op": "gc"}
        if kind == "open":
            n = rng.randint(1, 5)
            names = self._fresh(rng, n + 1)
            if len(names) < 2:
                return {"op": "use", "sym": "foo"}
            reserved = names.pop()
            good = [self._spec(rng, s) for s in names]
            if cfg["bad_kinds"] and rng.random() < cfg["p_bad"]:
                bk = rng.choice(cfg["bad_kinds"])
                if bk == "interrupt":
                    # the mapping itself fails while handing over entry k (k = 0..n-1)
                    exc = rng.choice(["KeyboardInterrupt", "SystemExit"])
                    if cfg["sweep"] and not self.swept:
                        self.swept = True
                        self.stats.probe("sweeps")
                        ops = []
                        for k in range(len(good)):
                            ops.append({"op": "open", "units": good,
                                        "bad": {"k": k, "kind": "interrupt", "exc": exc}})
                            ops.append({"op": "use", "sym": good[0]["sym"]})
                        self.queue = ops[1:]
                        return ops[0]
                    return {"op": "open", "units": good,
                            "bad": {"k": rng.randrange(len(good)), "kind": "interrupt",
                                    "exc": exc}}
                bad = self._bad_entry(rng, bk, reserved)
                if bad is not None:
                    if cfg["sweep"] and not self.swept:
                        # fault enumeration: the bad entry at every position 0..n
                        self.swept = True
                        self.stats.probe("sweeps")
                        ops = []
                        for k in range(len(good) + 1):
                            ops.append({"op": "open", "units": good[:k] + [bad] + good[k:],
                                        "bad": {"k": k, "kind": bk}})
                            ops.append({"op": "use", "sym": good[0]["sym"]})
                        self.queue = ops[1:]
                        return ops[0]
                    k = rng.randint(0, len(good))
                    return {"op": "open", "units": good[:k] + [bad] + good[k:],
                            "bad": {"k": k, "kind": bk}}
            if self.closed_specs and rng.random() < 0.25:
                # open again exactly what an earlier, now closed scope registered
                again = rng.choice(self.closed_specs)
                if not any(u["sym"] in self.open_symbols() for u in again):
                    return {"op": "open", "units": again, "bad": None, "reuse": True}
            return {"op": "open", "units": good, "bad": None, "reuse": rng.random() < 0.5}
        if kind == "close":
            return {"op": "close"}
        if kind == "raise":
            exc = "KeyboardInterrupt" if cfg["interrupts"] and rng.random() < 0.4 else \
                rng.choice(["ValueError", "ScopeFault", "ZeroDivisionError"])
            return {"op": "raise", "depth": rng.randint(1, len(self.stack)), "exc": exc}
        if kind == "use":
            syms = sorted(self.known_syms)
            s = rng.choice(syms)
            pref = ""
            u = self.known_syms[s]
            if u.get("prefixes") and rng.random() < 0.5:
                pref = "k"
            return {"op": "use", "sym": s, "prefix": pref}
        return self._gen_dip(rng)

    def _gen_dip(self, rng):
        cfg = self.cfg
        n = rng.randint(0, 4)
        names = self._fresh(rng, n)
        lines = []
        defined = []
        for nm in names:
            if defined and rng.random() < 0.4:
                lines.append(f"$unit {nm} = {rng.choice([2, 0.5, 10])} [{rng.choice(defined)}]")
            else:
                lines.append(f"$unit {nm} = {rng.choice([2, 0.5, 10, 1e3])} "
                             f"{rng.choice(['m', 'cm', 'g', 's', 'km/s'])}")
            defined.append(nm)
        # typed nodes using the units
        body = []
        dims = {}
        for i in range(rng.randint(1, 4)):
            u = rng.choice(defined) if defined and rng.random() < 0.7 else None
            unit = f"[{u}]" if u else rng.choice(["m", "cm", "s", "g"])
            typ = rng.choice(["float", "int"])
            body.append(f"v{i} {typ} = {rng.randint(1, 9)} {unit}")
            if rng.random() < 0.3:
                body.append(f"  = {rng.randint(1, 9)} {unit}")
            if rng.random() < 0.3:
                body.append(f"  !condition ('{{?}} > 0 {unit}')")
            if rng.random() < 0.3:
                body.append(f"v{i} = {rng.randint(1, 9)} {unit}")
            if rng.random() < 0.2:
                body.append(f"e{i} float = ('{{?v{i}}} * 2')")
        lines += body
        fault = None
        if rng.random() < cfg["p_dip_fault"]:
            fault = rng.choice(["dup_unit", "const_name", "malformed", "unknown_unit",
                                "foreign_dim", "syntax"])
            j = rng.randint(0, len(lines))
            if fault == "dup_unit" and defined:
                lines.insert(max(j, 1), f"$unit {rng.choice(defined)} = 3 m")
            elif fault == "const_name":
                # clash is discovered by the *next* scope the parser opens
                k = rng.randint(0, len(names))
                lines.insert(k, f"$unit {rng.choice(['pi', 'c', 'e', 'k'])} = 3")
            elif fault == "malformed":
                lines.insert(rng.randint(0, len(names)), "$unit bad = abc m")
            elif fault == "unknown_unit":
                lines.insert(j, "w float = 1 nosuchunit")
            elif fault == "foreign_dim":
                lines.insert(len(lines), "v0 = 3 K")
            else:
                lines.insert(j, "v9 float float = = 1")
        self.ndip += 1
        return {"op": "dip", "text": "\n".join(lines), "fault": fault}

    # -- execution ------------------------------------------------------------------------
    def _check_open_state(self, where):
        """While scopes are open: baseline part untouched, exactly the open symbols
        present."""
        snap = tables.snapshot()
        base = self.base.snap
        nb = len(base["standard"])
        trimmed = dict(snap, standard=snap["standard"][:nb], standard_len=nb,
                       standard_items=snap["standard_items"][:nb], types=base["types"])
        d = tables.diff(base, trimmed)
        if d:
            raise Violation("baseline_rows_disturbed", {"where": where, "diff": d},
                            signature=f"C09/baseline_rows/{where}")
        have = sorted(k for k, _ in snap["standard"][nb:])
        want = sorted(self.open_symbols())
        if have != want:
            raise Violation("custom_symbols_not_those_of_open_scopes",
                            {"where": where, "table_has": have, "open_scopes_have": want},
                            signature=f"C09/leak/{where}")
        if snap["prefixes"] != base["prefixes"]:
            raise Violation("prefix_table_changed", {"where": where},
                            signature=f"C09/prefix_table/{where}")
        types_extra = [t for t in snap["types"] if not any(t is b for b in base["types"])]
        want_types = []
        for sc in self.stack:
            for u in sc["units"]:
                if u.get("defn") in CUSTOM_TYPES and u["defn"] not in BUILTIN_TYPES:
                    t = CUSTOM_TYPES[u["defn"]]
                    if t not in want_types:
                        want_types.append(t)
        def _nm(t):
            return getattr(t, "__name__", None) or repr(t)[:60]
        if sorted(_nm(t) for t in types_extra) != sorted(_nm(t) for t in want_types):
            raise Violation("conversion_types_not_those_of_open_scopes",
                            {"where": where, "extra": [_nm(t) for t in types_extra],
                             "want": [_nm(t) for t in want_types]},
                            signature=f"C09/types_leak/{where}")
        base_types = [t for t in snap["types"] if any(t is b for b in base["types"])]
        if len(base_types) != len(base["types"]) or \
                any(a is not b for a, b in zip(base_types, base["types"])):
            raise Violation("builtin_conversion_types_changed", {"where": where},
                            signature=f"C09/types_builtin/{where}")

    def _same_as(self, pre, where, sig):
        d = tables.diff(pre, tables.snapshot())
        if d:
            raise Violation("tables_not_restored", {"where": where, "diff": d},
                            signature=f"C09/{sig}")

    def _usable(self, u, prefix=""):
        sym = prefix + u["sym"]
        factor = u["mag"] * (S.UNIT_PREFIXES[prefix].magnitude if prefix else 1.0)
        base = BASE_EXPR[u["dim"]]
        try:
            q = Quantity(1, sym)
            v = q.value(base) if base else q.value()
        except Exception as e:
            raise Violation("custom_unit_unusable_inside_scope",
                            {"symbol": sym, "convert_to": base,
                             "error": [type(e).__name__, repr(e.args)[:200]]},
                            signature="C09/usable_inside/error")
        if u.get("defn") == "G":
            factor = factor + 10.0        # its own conversion class: an offset of 10
        if not math.isclose(float(v), factor, rel_tol=1e-12):
            raise Violation("custom_unit_wrong_inside_scope",
                            {"symbol": sym, "got": float(v), "want": factor,
                             "definition": u.get("defn")},
                            signature="C09/usable_inside/value")

    def _probe_builtin(self, where):
        """A conversion between built-in units follows the conversion classes of the scopes
        that are open now, and nothing else."""
        gauge = any(u.get("defn") == "G" for sc in self.stack for u in sc["units"])
        want = 11.0 if gauge else 274.15
        try:
            got = float(Quantity(1, "Cel").value("K"))
        except Exception as e:
            raise Violation("builtin_conversion_failed",
                            {"where": where, "error": [type(e).__name__, repr(e.args)[:200]]},
                            signature=f"C09/builtin_conversion/{where}")
        if not math.isclose(got, want, rel_tol=1e-12):
            raise Violation("builtin_conversion_follows_a_scope_that_is_not_open",
                            {"where": where, "conversion": "1 Cel -> K", "got": got, "want": want,
                             "gauge_class_open": gauge},
                            signature=f"C09/builtin_conversion/{where}")

    def _exit(self, sc, info, where):
        """Leave a scope exactly as the with-statement does; the scope's own cleanup must
        not fail (an exception here would replace the body's exception and leave the
        tables as they are)."""
        try:
            sc["env"].__exit__(*info)
        except Exception as e:
            raise Violation("scope_exit_failed",
                            {"where": where, "error": [type(e).__name__, repr(e.args)[:200]],
                             "diff": tables.diff(sc["pre"], tables.snapshot())},
                            signature=f"C09/exit_failed/{where}")

    def _close(self, where):
        sc = self.stack.pop()
        if len(self.closed_specs) < 8:
            self.closed_specs.append(sc["units"])
        self._exit(sc, (None, None, None), where)
        self._same_as(sc["pre"], where, "leak/after_close")

    def apply(self, op):
        try:
            return self._apply(op)
        except Violation:
            raise
        except (KeyError, AttributeError, TypeError, ValueError) as e:
            # the tables themselves can no longer be read consistently
            import traceback
            tb = traceback.extract_tb(e.__traceback__)
            if any("scinumtools" in f.filename for f in tb[-2:]):
                raise Violation("tables_unreadable",
                                {"op": op.get("op"), "error": [type(e).__name__,
                                                               repr(e.args)[:200]]},
                                signature="C09/tables_unreadable")
            raise

    def _apply(self, op):
        kind = op["op"]
        depth0 = len(self.stack)
        out = None
        if kind == "open":
            out = self._apply_open(op)
        elif kind == "close":
            if not self.stack:
                return "skip", None
            self._close("close")
            self._check_open_state("after_close")
            out = ("closed", len(self.stack))
        elif kind == "raise":
            if not self.stack:
                return "skip", None
            depth = max(1, min(op["depth"], len(self.stack)))
            exc = EXC[op["exc"]]("body fault")
            self.had_fault = True
            try:
                raise exc
            except BaseException as e:  # noqa: B902 - unwinding exactly as `with` does
                info = (type(e), e, e.__traceback__)
                for _ in range(depth):
                    sc = self.stack.pop()
                    self._exit(sc, info, "raise")
                    self._same_as(sc["pre"], "raise", "leak/after_body_exception")
            self.stats.fault("body_" + ("interrupt" if op["exc"] == "KeyboardInterrupt"
                                        else "exception"), True)
            self._check_open_state("after_raise")
            out = ("unwound", depth)
        elif kind == "use":
            out = self._apply_use(op)
        elif kind == "dip":
            out = self._apply_dip(op)
        elif kind == "mutate_mapping":
            if not self.stack:
                return "skip", None
            sc = self.stack[-1]
            m = sc.get("mapping")
            if not isinstance(m, dict):
                return "skip", None
            self.unit_objects.pop(sc.get("key"), None)      # never handed to a later scope
            if op["how"] == "clear":
                m.clear()
            elif op["how"] == "pop" and m:
                m.pop(next(iter(m)))
            else:
                m["zzzq"] = {"magnitude": 3.0, "dimensions": [0, 0, 1, 0, 0, 0, 0, 0]}
            self.stats.fault("caller_changes_its_units_mapping_while_the_scope_is_open", True)
            self._check_open_state("after_mapping_change")
            for u in sc["units"]:
                self._usable(u)
            out = ("mapping_changed", op["how"])
        elif kind == "gc":
            import gc
            gc.collect()
            self.stats.fault("collector_run_mid_history", True)
            self._check_open_state("after_gc")
            out = ("collected", len(self.stack))
        else:
            return "skip", None
        self.abstract = f"d{len(self.stack)}" + ("f" if self.had_fault else "")
        if self.had_fault and (depth0 > 0 or len(self.stack) > 0 or kind == "dip"):
            self.nontrivial = True
        return out

    def _apply_open(self, op):
        spec = [u for u in op["units"] if u.get("dim") in DIMS]
        dedup = {}
        for u in spec:            # a dict keeps the first position and the last value
            dedup[u["sym"]] = u
        spec = list(dedup.values())
        # ' qux' and 'qux' are different table keys but the same text to the parser: such a
        # pair (only shrinking or re-opening can produce it) is not a history worth a verdict
        names = [u["sym"] for u in spec] + list(self.open_symbols())
        if any(a != b and a.strip() == b.strip() for a in names for b in names):
            return "skip", None
        pre = tables.snapshot()
        # users define a units dict once and hand the same object to several `with` blocks:
        # reuse the object built for an identical description earlier in this run
        key = json.dumps(spec, sort_keys=True)
        if op.get("reuse") and key in self.unit_objects:
            units = self.unit_objects[key]
            self.stats.probe("units_dict_object_reused")
        else:
            units = build_units(spec)
            self.unit_objects[key] = units
        if op.get("bad") and op["bad"]["kind"] == "interrupt":
            units = InterruptingUnits(units, op["bad"]["k"], EXC[op["bad"]["exc"]])
        try:
            env = UnitEnvironment(units)
        except BaseException as e:
            if isinstance(e, MemoryError) or (isinstance(e, SystemExit) and not (
                    op.get("bad") and op["bad"].get("exc") == "SystemExit")):
                raise
            # Python never calls __exit__ for a scope whose construction failed:
            # whatever was registered before the failure must be gone already.
            self.had_fault = True
            for u in spec:
                self.known_syms.setdefault(u["sym"], u)
            if op.get("bad"):
                self.stats.fault("open_" + op["bad"]["kind"], True)
                if op["bad"]["k"] > 0:
                    self.stats.probe("registration_failed_after_k>0")
            d = tables.diff(pre, tables.snapshot())
            if d:
                raise Violation(
                    "failed_registration_left_units_behind",
                    {"diff": d, "error": [type(e).__name__, repr(e.args)[:200]],
                     "bad": op.get("bad")},
                    signature="C09/leak/failed_open/" + (op["bad"]["kind"] if op.get("bad")
                                                         else "unplanned"))
            self._check_open_state("after_failed_open")
            opened = list(self.open_symbols())
            syms = [u["sym"] for u in spec]
            related = any(a != b and (a.endswith(b) or b.endswith(a))
                          for a in syms for b in opened + syms)
            if not op.get("bad") and not related and not any(
                    u["sym"] in {k for k, _ in pre["standard"]} for u in spec):
                # nothing was wrong with this registration: fresh symbols, complete
                # definitions - its units have to be usable inside its scope
                raise Violation("valid_scope_refused",
                                {"units": [[u["sym"], u.get("prefixes"), u.get("form")] for u in spec],
                                 "open": sorted(self.open_symbols()),
                                 "error": [type(e).__name__, repr(e.args)[:200]]},
                                signature="C09/usable_inside/refused")
            return "open_failed:" + type(e).__name__, len(self.stack)
        if op.get("bad"):
            self.stats.fault("open_" + op["bad"]["kind"], False)
        # the scope opened: it must not have replaced a symbol that existed before it
        taken = {k for k, _ in pre["standard"]}
        clash = [u["sym"] for u in spec if u["sym"] in taken]
        if clash:
            try:
                env.close()
            except Exception:
                pass
            d = tables.diff(pre, tables.snapshot())
            if not d:
                return "opened_and_closed_duplicate", clash
            raise Violation("scope_replaced_an_existing_symbol",
                            {"symbols": clash, "tables_after_closing_it_again": d},
                            signature="C09/replaced_existing/" + (op["bad"]["kind"] if op.get("bad")
                                                                  else "unplanned"))
        env.__enter__()
        self.stack.append({"env": env, "units": spec, "pre": pre, "mapping": units, "key": key})
        for u in spec:
            self.known_syms[u["sym"]] = u
        self._check_open_state("after_open")
        for u in spec:
            self._usable(u)
        return "opened", len(self.stack)

    def _apply_use(self, op):
        sym = op["sym"]
        self._probe_builtin("use")
        u = self.open_symbols().get(sym)
        prefix = op.get("prefix") or ""
        if u is not None:
            if prefix and not (u.get("prefixes") is True or
                               (isinstance(u.get("prefixes"), list) and prefix in u["prefixes"])):
                prefix = ""
            self._usable(u, prefix)
            return "used_inside", sym
        # not registered by any open scope: must be unknown
        if sym not in self.pool:
            return "skip", None      # clashing symbols are real units outside
        if any(o.endswith(sym) or (prefix + sym).endswith(o) for o in self.open_symbols()):
            return "skip", None      # an open look-alike ('kqux') reads the same text
        try:
            q = Quantity(1, prefix + sym)
        except Exception as e:
            return "unknown_outside", type(e).__name__
        raise Violation("custom_unit_usable_outside_scope",
                        {"symbol": prefix + sym, "parsed_as": repr(q)},
                        signature="C09/usable_outside")

    def _apply_dip(self, op):
        pre = tables.snapshot()
        self.ndip += 1
        name = f"d{self.ndip}"
        try:
            p = DIP(name=name)
            p.add_string(op["text"])
            env = p.parse()
            outcome = "dip_ok"
            obs = len(env.nodes)
            # usable inside the parse: nodes with custom units got their values
            env.data()
        except BaseException as e:
            if isinstance(e, (SystemExit, MemoryError, KeyboardInterrupt)):
                raise
            outcome = "dip_failed"
            obs = type(e).__name__
            self.had_fault = True
        if op.get("fault"):
            self.stats.fault("dip_" + op["fault"], outcome == "dip_failed")
            if outcome == "dip_failed" and len(self.stack) > 0:
                self.stats.probe("dip_failed_inside_open_scope")
        d = tables.diff(pre, tables.snapshot())
        if d:
            raise Violation("dip_parse_changed_tables",
                            {"diff": d, "outcome": outcome, "fault": op.get("fault")},
                            signature=f"C09/leak/dip/{outcome}")
        return outcome, obs

    # -- shrinking -------------------------------------------------------------------------
    @classmethod
    def simplify(cls, op):
        if op["op"] == "open":
            us = op["units"]
            if len(us) > 1:
                for i in range(len(us)):
                    cand = us[:i] + us[i + 1:]
                    bad = op.get("bad")
                    yield dict(op, units=cand, bad=None if bad is None else bad)
            for i, u in enumerate(us):
                for key, simple in (("prefixes", None), ("defn", None), ("form", "dict"),
                                    ("name", None), ("mag", 2.0), ("dim", "m")):
                    if u.get(key) != simple and key in u:
                        v = dict(u)
                        v[key] = simple
                        yield dict(op, units=us[:i] + [v] + us[i + 1:])
        elif op["op"] == "dip":
            lines = op["text"].split("\n")
            if len(lines) > 1:
                for i in range(len(lines)):
                    yield dict(op, text="\n".join(lines[:i] + lines[i + 1:]))
        elif op["op"] == "raise":
            if op["depth"] > 1:
                yield dict(op, depth=1)
            if op["exc"] != "ValueError":
                yield dict(op, exc="ValueError")

    @classmethod
    def rule(cls, prop):
        return ("runs: seeded histories of open/close/raise-in-body/use/DIP-parse over the real "
                "global unit tables, scopes nested up to 4 deep; a run is non-trivial when a "
                "fault (failed registration, body exception, failing DIP parse) happened while "
                "a scope was open or a DIP parse ran; distinct = distinct sequences of (op "
                "kind, abstract pre-state = nesting depth + fault-seen flag, outcome class)")

    @classmethod
    def components(cls, prop):
        return {"real": ["units.UnitEnvironment", "unit_environment.check_unique_symbols",
                         "units.settings.UNIT_STANDARD/UNIT_PREFIXES/UNIT_TYPES (the process "
                         "globals)", "units.Quantity/UnitSolver", "dip.DIP parser with "
                         "node_unit/node_float/node_integer/numerical_solver/logical_solver/"
                         "type_number scopes", "Python with-protocol (__exit__ called with the "
                         "real exception triple)"],
                "stub": ["custom conversion classes CustomTypeA/B (UnitType subclasses passed "
                         "as 'definition')"]}
