"""Quantity pool machine.

C07 (snapshot oracle): a pool of live quantities; every operation may use any
members as operands; results enter the pool.  Before each operation every
member is snapshotted through value()/units()/abse(); afterwards every member
except the target of an explicitly in-place method must report the same.

C04 (ledger oracle): members with linear, non-offset units carry a ledger entry
(base value B = x*f(u) and dimension vector, f computed from the table rows by
sim.unitmodel).  Chains of in-place to() and out-of-place value(v): accepted
conversions must report B/f(v) (reciprocal rule: 1/B/f(v)), B is conserved
along the whole chain; refused conversions must raise and leave value, units
and uncertainty bit-identical.
"""
import math
from decimal import Decimal
from fractions import Fraction as PyFraction

import numpy as np

from .core import Machine, Violation
from . import unitmodel as UM
from . import tables

from scinumtools.units import Quantity, Fraction

# ---------------------------------------------------------------------------- unit pools (C07)
FAMILIES = {
    "length": ["m", "km", "cm", "mm", "in", "ft", "au"],
    "time": ["s", "ms", "min", "h", "day"],
    "mass": ["g", "kg", "mg", "lb"],
    "energy": ["J", "erg", "kJ", "eV", "cal", "kg*m2/s2", "N*m"],
    "velocity": ["m/s", "km/h", "mph", "cm/s"],
    "angle": ["rad", "deg", "mrad"],
    # g/kg and m/km: dimensionless in total but still carrying (cancelling) units once a
    # plain number has been converted to them in place
    "dimless": [None, "%", "g/kg", "m/km", "ppth"],
    "power": ["W", "mW", "kW", "dBm", "dBW", "dBmW"],
    "volt": ["V", "mV", "dBV", "dBuV"],
    "temp": ["K", "Cel", "degF", "degR", "mK"],
    "ratio": ["dB", "Np", "PR", "AR"],
    "freq": ["Hz", "kHz", "s-1"],
}
LOGU = {"dBm", "dBW", "dBmW", "dBV", "dBuV", "dB", "Np"}


_CANDELA = Quantity(1, "cd")



AMBIENT = {"problems": [], "asked": 0, "busy": False, "q": None, "turn": 0}


def _ambient_class():
    from scinumtools.units.unit_types import UnitType

    class AmbientType(UnitType):
        """A conversion class whose `_istype` is ordinary user code that uses the library (the
        way a Mach-number unit looks up the ambient temperature) - while the conversion that
        asked it is half-way through.  It always declines."""

        def _istype(self):
            if AMBIENT["busy"]:
                return False          # asked by its own conversions below
            AMBIENT["busy"] = True
            AMBIENT["asked"] += 1
            q = AMBIENT["q"]
            try:
                calls = [lambda: q["t"].value("K"), lambda: Quantity(10.0, "dBm").value("mW"),
                         lambda: float(np.cos(Quantity(60.0, "deg")).value()),
                         lambda: (q["l1"] + q["l2"]).value("m"),
                         lambda: (q["l1"] - q["l2"]).value("cm"),
                         lambda: bool(q["l1"] == q["l2"]), lambda: Quantity(3.0, "km").value("m")]
                want = [293.15, 10.0, 0.5, 1.2, 80.0, False, 3000.0]
                # what the user code did last varies from one time it is asked to the next
                k = AMBIENT["turn"] % len(calls)
                AMBIENT["turn"] += 1
                calls, want = calls[k:] + calls[:k], want[k:] + want[:k]
                got = [c() for c in calls]
                for g, w in zip(got, want):
                    if isinstance(w, bool):
                        ok = g == w
                    else:
                        ok = abs(g - w) <= 1e-6 * abs(w)   # (the table's degree is good to 8 digits)
                    if not ok:
                        AMBIENT["problems"].append(["nested use of the library", want, got])
                        break
                state = [q["t"].value(), q["t"].units(), q["l1"].value(), q["l1"].units(),
                         q["l2"].value(), q["l2"].units()]
                if state != [20.0, "Cel", 1.0, "m", 20.0, "cm"]:
                    AMBIENT["problems"].append(["operands of the nested operations",
                                                [20.0, "Cel", 1.0, "m", 20.0, "cm"], state])
                    AMBIENT["q"] = _ambient_quantities()
            except Exception as e:
                AMBIENT["problems"].append(["nested use of the library", "no error",
                                            type(e).__name__ + repr(e.args)[:160]])
            finally:
                AMBIENT["busy"] = False
            return False

    return AmbientType


def _ambient_quantities():
    return {"t": Quantity(20.0, "Cel"), "l1": Quantity(1.0, "m"), "l2": Quantity(20.0, "cm")}


def open_ambient_scope():
    from scinumtools.units import UnitEnvironment
    AMBIENT.update(problems=[], asked=0, busy=False, q=_ambient_quantities(), turn=0)
    return UnitEnvironment({"ambq": {"magnitude": 1.0, "dimensions": [0, 0, 0, 0, 0, 0, 0, 0],
                                     "definition": _ambient_class()}})


def twin_reading(a, unit):
    """What a quantity built now from a's own public report (value(), units()) reads in `unit`.
    "The same value()" holds for a reading in any unit; a converter or factor remembered on the
    operand (per unit object, per pair of units) shows only in a reading that converts - and a
    reading taken by every snapshot would itself prime such a memory, so the reference is a
    fresh object instead.  Returns (ok, value)."""
    try:
        v = a.value()
        if isinstance(v, np.ndarray):
            v = v.copy()
        twin = Quantity(v, a.units()) if a.units() else Quantity(v)
        with np.errstate(all="ignore"):
            r = twin.value(unit)
    except Exception:
        return False, None
    return True, r


def close_reading(x, y):
    try:
        fx = np.asarray(x, dtype=float)
        fy = np.asarray(y, dtype=float)
    except Exception:
        return True
    if fx.shape != fy.shape:
        return False
    both_nan = np.isnan(fx) & np.isnan(fy)
    same_inf = np.isinf(fx) & np.isinf(fy) & (np.sign(fx) == np.sign(fy))
    with np.errstate(all="ignore"):
        near = np.abs(fx - fy) <= 1e-9 * np.maximum(np.abs(fx), np.abs(fy)) + 1e-300
    return bool(np.all(both_nan | same_inf | near))


def snap(q, deep=False):
    """Public observables of a quantity, copied.  With deep=True also the units of q*1:
    units() is a text computed when the unit object was built, the product recomputes it
    from the exponents, so damage to shared exponent objects shows up here."""
    v = q.value()
    if isinstance(v, np.ndarray):
        v = v.copy()
    e = q.abse()
    if isinstance(e, np.ndarray):
        e = e.copy()
    if deep:
        # the product with one candela: its units are recomputed from q's exponents and, cd
        # not being used anywhere else, never cancel to a plain number (which would be folded)
        try:
            with np.errstate(all="ignore"):
                prod = q * _CANDELA
                p = prod.units()
                pv = prod.value()
                if isinstance(pv, np.ndarray):
                    pv = tuple(np.asarray(pv, dtype=float).ravel().tolist())
                else:
                    pv = float(pv)
        except Exception as ex:
            p, pv = "raises " + type(ex).__name__, None
        return (v, q.units(), e, p, repr(pv))
    return (v, q.units(), e)


def safe_repr(x):
    """repr() of a library object may itself fail (e.g. formatting 0 +- e)."""
    try:
        return repr(x)
    except Exception as e:
        try:
            return f"<{type(x).__name__} value={x.value()!r} units={x.units()!r}>"
        except Exception:
            return f"<{type(x).__name__}: repr raises {type(e).__name__}>"


def same_num(a, b):
    if a is None or b is None:
        return a is None and b is None
    if isinstance(a, np.ndarray) or isinstance(b, np.ndarray):
        if not (isinstance(a, np.ndarray) and isinstance(b, np.ndarray)):
            return False
        if a.shape != b.shape:
            return False
        try:
            return bool(np.array_equal(a, b, equal_nan=True))
        except TypeError:
            return all(same_num(x, y) for x, y in zip(a.ravel().tolist(), b.ravel().tolist()))
    try:
        if isinstance(a, Decimal) or isinstance(b, Decimal):
            da = a if isinstance(a, Decimal) else Decimal(float(a))
            db = b if isinstance(b, Decimal) else Decimal(float(b))
            if da.is_nan() or db.is_nan():
                return da.is_nan() and db.is_nan()
            return da == db
        fa, fb = float(a), float(b)
        if math.isnan(fa) or math.isnan(fb):
            return math.isnan(fa) and math.isnan(fb)
        return fa == fb
    except Exception:
        return repr(a) == repr(b)


def same_kind(a, b):
    """float stays float, Decimal stays Decimal, array stays array."""
    def k(x):
        if isinstance(x, np.ndarray):
            return "array"
        if isinstance(x, Decimal):
            return "decimal"
        return "none" if x is None else "number"
    return k(a) == k(b)


def same_snap(a, b):
    return same_num(a[0], b[0]) and a[1] == b[1] and same_num(a[2], b[2]) and a[3:] == b[3:] \
        and same_kind(a[0], b[0])


def show(s):
    v, u, e = s[:3]
    return [np.array2string(v, precision=17) if isinstance(v, np.ndarray) else repr(v), u,
            np.array2string(e, precision=17) if isinstance(e, np.ndarray) else repr(e)]


_DIM_INDEX = None
_RAD_DIMS = UM.dims([["", "rad", 1, 1]])


def _dim_index():
    """dimension vector -> [(symbol, num, den)] over all linear table symbols and a few
    powers (baseline tables; built once per process)."""
    global _DIM_INDEX
    if _DIM_INDEX is None:
        idx = {}
        for s in UM.linear_symbols():
            _, d, _ = UM.row(s)
            if UM.is_nodim(d):
                continue
            for num, den in ((1, 1), (2, 1), (-1, 1), (1, 2), (3, 1), (-2, 1)):
                key = tuple(x * PyFraction(num, den) for x in d)
                idx.setdefault(key, []).append((s, num, den))
        _DIM_INDEX = idx
    return _DIM_INDEX


NPFUNCS = {
    "sqrt": np.sqrt, "cbrt": np.cbrt, "sin": np.sin, "cos": np.cos, "tan": np.tan,
    "arcsin": np.arcsin, "arccos": np.arccos, "arctan": np.arctan, "isnan": np.isnan,
    "abs": np.abs, "absolute": np.absolute, "round": np.round, "floor": np.floor,
    "ceil": np.ceil, "sum": np.sum, "exp": np.exp, "negative": np.negative,
}


class QuantityMachine(Machine):
    NAME = "quantity"

    # ------------------------------------------------------------------ configuration
    @classmethod
    def gen_config(cls, rng, prop, tier):
        if prop == "C04":
            return cls._config_c04(rng, tier)
        fams = [f for f in sorted(FAMILIES) if rng.random() < 0.45]
        if not fams:
            fams = [rng.choice(sorted(FAMILIES))]
        return {
            "prop": prop, "tier": tier,
            "max_ops": rng.randint(6, 40) if tier == "quick" else rng.randint(10, 120),
            "pool": rng.randint(2, 8),
            "families": fams,
            "arrays": rng.random() < 0.4,
            "decimal": rng.random() < 0.3,
            "errors": rng.random() < 0.5,
            "p_same_family": rng.choice([0.5, 0.8, 0.95]),
            "p_follow_inplace": rng.choice([0.0, 0.3, 0.6]),
            "numpy": rng.random() < 0.7,
            "p_bad_target": rng.choice([0.0, 0.1, 0.3]),
            # the whole run takes place inside a unit scope whose conversion class uses the
            # library itself whenever it is asked (and always declines)
            "ambient": rng.random() < 0.3,
        }

    @classmethod
    def _config_c04(cls, rng, tier):
        syms = UM.linear_symbols()
        k = rng.randint(6, 24)
        fault_free = rng.random() < 0.25
        return {
            "prop": "C04", "tier": tier,
            "max_ops": rng.randint(6, 40) if tier == "quick" else rng.randint(10, 90),
            "pool": rng.randint(1, 5),
            "symbols": sorted(rng.sample(syms, k)),
            "arrays": rng.random() < 0.35,
            "errors": rng.random() < 0.3,
            "compound": rng.random() < 0.7,
            "frac_exp": rng.random() < 0.4,
            "system_units": rng.random() < 0.3,
            "extreme": rng.random() < 0.3,
            "p_refused": 0.0 if fault_free else rng.choice([0.1, 0.25, 0.4]),
            "p_recip": rng.choice([0.0, 0.1, 0.2]),
            "p_value": rng.choice([0.2, 0.5]),
            "custom_scopes": rng.random() < 0.5,
            "max_chain": 30,
            "ambient": rng.random() < 0.3,
        }

    # ------------------------------------------------------------------ lifecycle
    def start(self):
        self.base = tables.baseline()
        self.base.restore()
        self.pool = []       # list of dict(q=Quantity, fam=str|None, led=ledger|None)
        self.queue = []
        self.mode = self.cfg["prop"]
        self.inplace_seen = False
        self.abstract = "p0"
        from scinumtools.units import Unit
        self.acc = Unit()          # one long-lived accessor per run
        self._counter = 0
        self.last_slot = None
        self.ambient = None
        if self.cfg.get("ambient"):
            self.ambient = open_ambient_scope()

    def stop(self):
        self.pool = []
        if getattr(self, "ambient", None) is not None:
            try:
                self.ambient.close()
            except Exception:
                pass
            self.ambient = None

    # ------------------------------------------------------------------ generation helpers
    def _gen_value(self, rng, kind, small=False):
        def scalar():
            r = rng.random()
            if r < 0.1:
                return 0.0
            if r < 0.13 and kind != "decimal":
                return rng.choice([float("inf"), float("nan"), float("-inf")])
            if r < 0.35:
                return float(rng.choice([1, 2, 3, 5, 10, 30, 45, 100, -1, -2, -7]))
            m = rng.uniform(1, 10) * 10 ** rng.randint(-3, 4)
            return round(m if rng.random() < 0.8 else -m, 6)
        if kind == "array":
            n = rng.randint(1, 4)
            return [scalar() for _ in range(n)]
        if kind == "decimal":
            return str(Decimal(str(scalar())))
        return scalar()

    def _new_c07(self, rng):
        cfg = self.cfg
        fam = rng.choice(cfg["families"])
        unit = rng.choice(FAMILIES[fam])
        kind = "float"
        if cfg["arrays"] and rng.random() < 0.4:
            kind = "array"
        elif cfg["decimal"] and rng.random() < 0.4 and unit not in LOGU:
            kind = "decimal"
        op = {"op": "new", "value": self._gen_value(rng, kind), "kind": kind, "unit": unit,
              "fam": fam, "abse": None, "rele": None}
        if kind == "array" and rng.random() < 0.4:
            # the unit handed over as an object instead of text (constructors treat the
            # magnitude differently then)
            op["unit_form"] = rng.choice(["baseunits", "quantity"])
        if cfg["errors"] and kind != "decimal" and rng.random() < 0.4:
            if rng.random() < 0.5:
                op["abse"] = rng.choice([0.1, 0.5, 0.01])
            else:
                op["rele"] = rng.choice([1, 5, 10])
        return op

    def _target_unit(self, rng, fam):
        cfg = self.cfg
        if fam in FAMILIES and rng.random() >= cfg.get("p_bad_target", 0):
            return rng.choice(FAMILIES[fam])
        f2 = rng.choice(sorted(FAMILIES))
        return rng.choice(FAMILIES[f2])

    def _pick(self, rng, fam=None):
        n = len(self.pool)
        if fam is not None and rng.random() < self.cfg.get("p_same_family", 0.5):
            same = [i for i, e in enumerate(self.pool) if e["fam"] == fam]
            if same:
                return rng.choice(same)
        return rng.randrange(n)

    def gen_op(self, rng):
        if self.queue:
            return self.queue.pop(0)
        if self.mode == "C04":
            return self._gen_c04(rng)
        cfg = self.cfg
        if len(self.pool) < 2 or (len(self.pool) < cfg["pool"] and rng.random() < 0.3):
            return self._new_c07(rng)
        r = rng.random()
        a = self._pick(rng)
        fam = self.pool[a]["fam"]
        if rng.random() < 0.04:
            # quantities handed out by the long-lived Unit() accessor of this run: each access
            # is a quantity of its own, so what is done to one in place stays with that one
            fam_ = rng.choice(["length", "time", "mass", "energy"])
            sym = rng.choice([u for u in FAMILIES[fam_] if u.isalpha()])
            return {"op": "new_acc", "sym": sym, "fam": fam_}
        if rng.random() < 0.04:
            # the caller writes into an array it owns: the one it built a quantity from, or
            # the one value() handed out (which is that quantity's own storage)
            return {"op": "poke", "a": a, "how": rng.choice(["src", "value", "value"])}
        if rng.random() < 0.03:
            # a product holding a temporary custom unit is rebased after that unit's scope has
            # ended: the method fails on the unknown unit after it has merged the others
            pair = rng.choice([["km", "m"], ["m", "cm"], ["s", "ms"], ["kg", "g"], ["h", "s"]])
            return {"op": "stale_rebase", "pair": pair, "x": rng.choice([3.0, -2.5, 40.0]),
                    "abse": rng.choice([None, 0.5]), "order": rng.randrange(3),
                    "retry": rng.random() < 0.5}
        if rng.random() < 0.07:
            # a quantity built from another one: Quantity(x, q), Quantity(x, q.units()), a
            # shallow copy (what the library itself makes to protect an operand), a second
            # quantity over the same Magnitude object
            return {"op": "new_from", "a": a, "x": rng.choice([1, 2, 2.5, -3]),
                    "how": rng.choice(["quantity", "units", "copy", "copy", "magnitude"])}
        if r < 0.30:
            b = self._pick(rng, fam)
            name = rng.choice(["add", "sub", "add", "sub", "mul", "truediv", "eq",
                               "iadd", "isub", "imul", "itruediv"])
            op = {"op": "bin", "name": name, "a": a, "b": b}
        elif r < 0.38:
            name = rng.choice(["add", "sub", "mul", "truediv", "radd", "rsub", "rmul",
                               "rtruediv", "eq"])
            op = {"op": "num", "name": name, "a": a, "x": rng.choice([0, 1, 2, 2.5, -3])}
        elif r < 0.45:
            p = rng.choice([2, 3, -1, [1, 2], [2, 3], 0.5, 1.5, "F1:2", "F3:1"])
            op = {"op": "pow", "a": a, "p": p}
        elif r < 0.50:
            op = {"op": "neg", "a": a}
        elif r < 0.55:
            op = {"op": "getitem", "a": a, "i": rng.choice([0, -1, [0, 2], [1, None]])}
        elif r < 0.72 and cfg["numpy"]:
            name = rng.choice(sorted(NPFUNCS) + ["power", "linspace", "logspace", "sin", "cos",
                                                 "linspace"])
            op = {"op": "np", "name": name, "a": a}
            if name == "power":
                op["x"] = rng.choice([2, 3, 0.5])
            if name in ("linspace", "logspace"):
                op["b"] = self._pick(rng, fam)
                op["n"] = rng.randint(2, 5)
                op["plain"] = rng.choice([None, None, "a", "b"])
        elif r < 0.82:
            name = rng.choice(["value", "value_unit", "value_unit", "units", "abse", "rele",
                               "str", "repr", "value_dtype"])
            op = {"op": "query", "name": name, "a": a}
            if name in ("value_unit", "value_dtype"):
                op["unit"] = self._target_unit(rng, fam)
            if name == "value_dtype":
                op["dtype"] = rng.choice(["float", "int", "str-int", "float32"])
        else:
            op = self._gen_inplace(rng, a)
        # results alias their operands only visibly after a later in-place operation:
        # follow up with one on the newest member or on an operand
        if op["op"] in ("bin", "num", "pow", "neg", "np", "getitem", "new_from") and \
                rng.random() < cfg["p_follow_inplace"]:
            who = rng.choice(["result", "a", "b"])
            self.queue.append({"op": "follow", "who": who, "of": op,
                               "kind": rng.choice(["to", "to", "rebase", "abse", "rele"]),
                               "unit_i": rng.randrange(8), "e": rng.choice([0.1, 0.5, 2])})
        return op

    def _gen_inplace(self, rng, a):
        fam = self.pool[a]["fam"]
        name = rng.choice(["to", "to", "to", "rebase", "abse", "rele", "to_quantity",
                           "to_baseunits"])
        op = {"op": "inplace", "name": name, "a": a}
        if name == "to_baseunits":
            # the unit object of another live quantity as the target (an alias hazard)
            op["b"] = self._pick(rng, fam)
        if name in ("to", "to_quantity"):
            op["unit"] = self._target_unit(rng, fam)
        if name == "to_quantity":
            # the target quantity's own magnitude divides the result: a zero, an array of
            # another shape or a Decimal there make the method fail after the unit
            # conversion itself has succeeded
            op["tq"] = rng.choice(["two", "two", "zero", "arr2", "arr3", "decimal"])
        if name in ("abse", "rele"):
            op["e"] = rng.choice([0.1, 0.5, 2, 10])
        return op

    # ------------------------------------------------------------------ C04 generation
    def _rand_terms(self, rng, want_dims=None):
        """A random unit (list of terms).  With want_dims, a unit of exactly that
        dimension is built from a random unit of the same dimension plus a cancelling
        pair, or None when no table symbol fits."""
        cfg = self.cfg
        syms = cfg["symbols"]

        def one(symbol):
            prefs = UM.admissible_prefixes(symbol)
            prefix = rng.choice(prefs) if prefs and rng.random() < 0.5 else ""
            return prefix, symbol

        if want_dims is None:
            n = 1
            if cfg["compound"] and rng.random() < 0.5:
                n = rng.randint(2, 3)
            terms = []
            used = set()
            for _ in range(n):
                s = rng.choice(syms)
                if cfg["system_units"] and rng.random() < 0.15:
                    s = rng.choice(["#SLEN", "#CLEN", "#SENE", "#CENE", "#SMAS", "#CMAS",
                                    "#STIM", "#SVEL", "#CVEL", "#SFOR", "#CFOR"])
                p, s = one(s)
                if (p, s) in used:
                    continue
                used.add((p, s))
                num, den = 1, 1
                r = rng.random()
                if r < 0.25:
                    num = rng.choice([2, 3, -1, -2])
                elif r < 0.35 and cfg["frac_exp"]:
                    num, den = rng.choice([(1, 2), (3, 2), (-1, 2), (2, 3)])
                terms.append([p, s, num, den])
            if UM.is_nodim(UM.dims(terms)) and len(terms) > 1:
                terms = terms[:1]     # cancelling compounds fold: C06's business
            return terms
        # a unit of the wanted dimension: single symbols (with power), from a cached index
        cands = _dim_index().get(tuple(want_dims), [])
        if not cands:
            return None
        s, num, den = rng.choice(cands)
        p, s = one(s)
        terms = [[p, s, num, den]]
        if cfg["compound"] and rng.random() < 0.3:
            # multiply by a dimensionless-in-total pair, e.g. km/m
            s2 = rng.choice([x for x in ("m", "s", "g") if x != s] or ["m"])
            p2 = rng.choice(UM.admissible_prefixes(s2))
            if p2 and (p2, s2) != (p, s):
                terms += [[p2, s2, 1, 1], ["", s2, -1, 1]]
        return terms

    def _gen_c04(self, rng):
        cfg = self.cfg
        if rng.random() < 0.05:
            # a quantity that is the root of another: sqrt(x u2), cbrt(x u3), (x u2) ** (1,2)
            terms = self._rand_terms(rng)
            if rng.random() < 0.3:
                # table rows whose factor is a Python int (not a float), with a negative
                # exponent: integer ** negative-integer is where NumPy and Python differ
                ints = [s_ for s_ in UM.linear_symbols()
                        if isinstance(UM.S.UNIT_STANDARD[s_].magnitude, int)]
                if ints:
                    terms = [["", rng.choice(sorted(ints)), rng.choice([-1, -1, -2, 1]), 1]]
            how = rng.choice(["sqrt", "cbrt", "pow_pair", "pow_float", "pow_pair_nn",
                              "pow_pair_negden"])
            return {"op": "new_root", "terms": terms, "how": how,
                    "value": rng.choice([4.0, 9.0, 2.25, 64.0, 1e4])}
        if len(self.pool) >= 2 and rng.random() < 0.1:
            # convert into the unit *object* of another member of the same dimension, or into
            # multiples of that member (its magnitude then divides the result, and a zero or
            # an array of another shape there makes the conversion fail at the last moment)
            a = rng.randrange(len(self.pool))
            la = self.pool[a]["led"]
            same = [i for i, e in enumerate(self.pool) if i != a and e["led"] is not None
                    and la is not None and tuple(e["led"]["dims"]) == tuple(la["dims"])]
            if same:
                return {"op": rng.choice(["conv_to_member", "conv_to_quantity"]), "a": a,
                        "b": rng.choice(same), "how": rng.choice(["to", "value"])}
        if self.pool and rng.random() < 0.05:
            # the in-place merge of units of one dimension: the physical value stays
            return {"op": "rebase_member", "a": rng.randrange(len(self.pool))}
        if self.pool and rng.random() < 0.04:
            cands = [i for i, e_ in enumerate(self.pool) if "src" in e_]
            if cands:
                return {"op": "poke_src", "a": rng.choice(cands)}
        if self.pool and rng.random() < 0.06:
            # derived objects that share state with a pool member are rebased or converted in
            # place; the member's own conversions must not notice
            return {"op": "alias_inplace", "a": rng.randrange(len(self.pool)),
                    "derive": rng.choice(["add_zero", "neg", "copy", "getitem"]),
                    "what": rng.choice(["rebase", "rebase", "to_origin"])}
        if rng.random() < 0.05:
            # the Unit() accessor hands out quantities; converting one of them in place must
            # not change what the accessor stands for later
            sym = rng.choice(["km", "cm", "m", "s", "ms", "kg", "g", "J", "erg", "N", "W", "Hz"])
            fam = {"km": "m", "cm": "m", "m": "km", "s": "ms", "ms": "s", "kg": "g", "g": "kg",
                   "J": "erg", "erg": "J", "N": "dyn", "W": "mW", "Hz": "kHz"}[sym]
            return {"op": "acc_poke", "sym": sym, "to": fam}
        if cfg.get("custom_scopes") and rng.random() < 0.08:
            # conversions to and from a temporary custom unit; the symbols recur with other
            # magnitudes and dimensions in later scopes of the same run
            base = rng.choice([[["", "m", 1, 1]], [["", "s", 1, 1]], [["k", "g", 1, 1]],
                               [["", "m", 1, 1], ["", "s", -1, 1]]])
            return {"op": "custom_scope", "sym": rng.choice(["span", "tick", "blob"]),
                    "mag": rng.choice([2.0, 5.0, 0.25, 1e3]), "base": base,
                    "x": rng.choice([1.0, 3.0, -2.5, 40.0]), "prefix": rng.random() < 0.5,
                    # another scope opened and closed (or failing to open) inside this one
                    "inner": rng.choice([None, None, "ok", "fails", "fails_clash"]),
                    # a quantity made inside the scope, kept, and converted for the first time
                    # after the scope has ended / inside a later scope that gives the symbol
                    # another size: its base value is the one it was made with
                    "late": rng.choice([None, None, "after", "redefined"])}
        if len(self.pool) < 1 or (len(self.pool) < cfg["pool"] and rng.random() < 0.15):
            terms = self._rand_terms(rng) if rng.random() > 0.08 else []
            kind = "array" if cfg["arrays"] and rng.random() < 0.4 else "float"
            if kind == "float" and rng.random() < 0.12:
                kind = "decimal"       # a scalar all the same; stays a Decimal through to()
            f = UM.factor(terms)

            def scalar():
                r = rng.random()
                if r < 0.08:
                    return rng.choice([0.0, 0.0, -0.0])
                if r < 0.3:
                    return float(rng.choice([1, 2, 5, 10, 1000, -1, -4]))
                lim = 60 if cfg["extreme"] else 8
                x = rng.uniform(1, 10) * 10.0 ** rng.randint(-lim, lim)
                return x if rng.random() < 0.8 else -x
            val = [scalar() for _ in range(rng.randint(1, 4))] if kind == "array" else scalar()
            op = {"op": "new_linear", "terms": terms, "style": rng.randint(0, 1), "value": val,
                  "kind": kind, "abse": None}
            if kind == "array" and rng.random() < 0.4:
                op["unit_form"] = rng.choice(["baseunits", "quantity", "member"])
            elif any(t[2] < 0 and t[3] != 1 for t in terms) and rng.random() < 0.5:
                op["negden"] = True
            if cfg["errors"] and rng.random() < 0.4:
                op["abse"] = rng.choice([0.1, 0.5])
            return op
        a = rng.randrange(len(self.pool))
        e = self.pool[a]
        led = e["led"]
        how = "value" if rng.random() < cfg["p_value"] else "to"
        if led is None:
            return {"op": "conv", "a": a, "how": how, "terms": [["", "m", 1, 1]], "style": 0,
                    "expect": "any"}
        r = rng.random()
        if r < cfg["p_refused"]:
            kind = rng.choice(["other_dim", "other_dim_compound", "partial_recip", "number_to_unit",
                               "unit_to_number"])
            terms = None
            if kind == "unit_to_number":
                # the target is "no unit at all" (None or an empty mapping): a plain number has
                # no dimension, so anything that has one is refused
                if UM.is_nodim(led["dims"]):
                    kind = "other_dim"
                else:
                    return {"op": "conv", "a": a, "how": "to", "terms": [], "style": 0,
                            "expect": "refused", "fault": kind,
                            "number_form": rng.choice(["none", "dict"])}
            if kind == "number_to_unit" and not UM.is_nodim(led["dims"]):
                kind = "other_dim"
            if kind == "other_dim":
                for _ in range(20):
                    t = self._rand_terms(rng)
                    if self._relation(led["dims"], UM.dims(t)) == "refused":
                        terms = t
                        break
            elif kind == "other_dim_compound":
                t = [list(x) for x in led["terms"]] + [["", rng.choice(["s", "g", "K", "mol"]), 1, 1]]
                if self._relation(led["dims"], UM.dims(t)) == "refused":
                    terms = t
            elif kind == "partial_recip":
                # reciprocal in some but not all components, e.g. s -> Hz2, m/s -> s/m2
                t = [[p, s, -n * (2 if i == 0 else 1), d]
                     for i, (p, s, n, d) in enumerate(led["terms"])]
                if t and self._relation(led["dims"], UM.dims(t)) == "refused":
                    terms = t
            else:
                for _ in range(20):
                    t = self._rand_terms(rng)
                    d = UM.dims(t)
                    if not UM.is_nodim(d) and self._relation(led["dims"], d) == "refused":
                        terms = t
                        break
            if terms is not None:
                return {"op": "conv", "a": a, "how": how, "terms": terms,
                        "style": rng.randint(0, 1), "expect": "refused", "fault": kind}
        if UM.is_nodim(led["dims"]):
            if rng.random() < 0.5:
                # a bare number converts to radians; a dimensionless *unit* (%, [pi]) does not
                return {"op": "conv", "a": a, "how": how, "terms": [["", "rad", 1, 1]],
                        "style": 0, "expect": "ok" if not led["terms"] else "refused",
                        "fault": "nodim_unit_to_rad"}
            t = rng.choice([[["", "%", 1, 1]], [["", "ppth", 1, 1]], [["k", "m", 1, 1], ["", "m", -1, 1]],
                            []])
            if not t:
                # a dimensionless unit converted to a plain number (to(None), to({}))
                return {"op": "conv", "a": a, "how": "to", "terms": [], "style": 0, "expect": "ok",
                        "number_form": rng.choice(["none", "dict"])}
            return {"op": "conv", "a": a, "how": how, "terms": t, "style": 0, "expect": "ok"}
        if r > 1 - cfg["p_recip"]:
            want = tuple(-x for x in led["dims"])
        else:
            want = led["dims"]
        terms = self._rand_terms(rng, want)
        if terms is None:
            terms = [list(t) for t in led["origin"]]
        return {"op": "conv", "a": a, "how": how, "terms": terms, "style": rng.randint(0, 1),
                "expect": "ok", "acc": rng.random() < 0.3}

    @staticmethod
    def _relation(d1, d2, bare=False):
        """Which rule of the statement applies between dimension vectors d1 -> d2.
        `bare`: the source carries no unit at all (a bare number)."""
        d1, d2 = tuple(d1), tuple(d2)
        if bare and d2 == _RAD_DIMS:
            return "number_to_rad"    # callers check that the target is exactly 'rad'
        if d1 == d2:
            return "same"
        if tuple(-x for x in d1) == d2:
            return "reciprocal"
        return "refused"

    # ------------------------------------------------------------------ execution
    def _mk(self, op):
        v = op["value"]
        if op["kind"] == "decimal":
            v = Decimal(v)
        elif op["kind"] == "array":
            v = np.array(v, dtype=float)
        kw = {}
        if op.get("abse") is not None:
            kw["abse"] = op["abse"]
        elif op.get("rele") is not None:
            kw["rele"] = op["rele"]
        return v, kw

    def _add(self, q, fam=None, led=None):
        cap = self.cfg["pool"]
        ent = {"q": q, "fam": fam, "led": led}
        if len(self.pool) < cap:
            self.pool.append(ent)
            self.last_slot = len(self.pool) - 1
            return self.last_slot
        # replace a slot deterministically: slot = ops so far mod cap
        k = self._counter % cap
        self.pool[k] = ent
        self.last_slot = k
        return k

    def apply(self, op):
        self._counter += 1
        AMBIENT["problems"] = []
        AMBIENT["asked"] = 0
        if self.mode == "C04":
            out = self._apply_c04(op)
        else:
            out = self._apply_c07(op)
        if self.ambient is not None:
            self.stats.fault("conversion_class_uses_the_library_when_asked", AMBIENT["asked"] > 0)
            if AMBIENT["problems"]:
                probs, AMBIENT["problems"] = AMBIENT["problems"], []
                raise Violation("library_used_from_a_conversion_class_misbehaves",
                                {"operation": {k: v for k, v in op.items() if k != "of"},
                                 "problems [what, want, got]": probs[:3]},
                                signature=f"{self.cfg['prop']}/reentry/" +
                                          "".join(c if c.isalnum() else "_" for c in probs[0][0])[:40])
        self.abstract = f"p{len(self.pool)}" + ("i" if self.inplace_seen else "")
        return out

    # -- C07 -----------------------------------------------------------------------------------
    def _slot(self, i):
        return self.pool[i % len(self.pool)]

    def _apply_c07(self, op):
        kind = op["op"]
        if kind == "new":
            v, kw = self._mk(op)
            try:
                unit = op["unit"]
                if op.get("unit_form") == "baseunits" and unit:
                    unit = Quantity(1, unit).baseunits
                elif op.get("unit_form") == "quantity" and unit:
                    unit = Quantity(1, unit)
                q = Quantity(v, unit, **kw)
            except Exception as e:
                return "new_failed", type(e).__name__
            k = self._add(q, op.get("fam"))
            if isinstance(v, np.ndarray):
                # the caller keeps its array: nothing done to the quantity may change it
                self.pool[k]["src"] = v
                self.pool[k]["src0"] = v.copy()
            return "new", [op["unit"], op["kind"]]
        if kind == "stale_rebase":
            return self._stale_rebase(op)
        if kind == "new_acc":
            try:
                q = getattr(self.acc, op["sym"])
            except Exception as e:
                return "new_failed", type(e).__name__
            self._add(q, op.get("fam"))
            self.stats.probe("member_from_unit_accessor")
            return "new", [op["sym"], "accessor"]
        if not self.pool:
            return "skip", None
        if kind == "poke":
            return self._poke_c07(op)
        if kind == "follow":
            op = self._resolve_follow(op)
            if op is None:
                return "skip", None
            kind = op["op"]
        before = [snap(e["q"], deep=True) for e in self.pool]
        target = None          # index whose change is allowed (explicit in-place method)
        failed_target = None   # ... unless that method raised
        result = None
        outcome = "ok"
        what = kind
        with np.errstate(all="ignore"):
            try:
                if kind == "bin":
                    a, b = self._slot(op["a"])["q"], self._slot(op["b"])["q"]
                    what = "bin:" + op["name"]
                    def aug(fn):
                        # 't = a; t += b': a second name for the operand, then the augmented
                        # form; the operand itself must keep its value
                        t = a
                        t = fn(t, b)
                        return t
                    import operator as _op
                    result = {"add": lambda: a + b, "sub": lambda: a - b, "mul": lambda: a * b,
                              "truediv": lambda: a / b, "eq": lambda: a == b,
                              "iadd": lambda: aug(_op.iadd), "isub": lambda: aug(_op.isub),
                              "imul": lambda: aug(_op.imul),
                              "itruediv": lambda: aug(_op.itruediv)}[op["name"]]()
                elif kind == "num":
                    a, x = self._slot(op["a"])["q"], op["x"]
                    what = "num:" + op["name"]
                    result = {"add": lambda: a + x, "sub": lambda: a - x, "mul": lambda: a * x,
                              "truediv": lambda: a / x, "radd": lambda: x + a,
                              "rsub": lambda: x - a, "rmul": lambda: x * a,
                              "rtruediv": lambda: x / a, "eq": lambda: a == x}[op["name"]]()
                elif kind == "pow":
                    a, p = self._slot(op["a"])["q"], op["p"]
                    if isinstance(p, list):
                        p = tuple(p)
                    elif isinstance(p, str):
                        n, d = p[1:].split(":")
                        p = Fraction(int(n), int(d))
                    result = a ** p
                elif kind == "new_from":
                    a = self._slot(op["a"])["q"]
                    what = "new_from:" + op["how"]
                    if op["how"] == "copy":
                        import copy as _copy
                        result = _copy.copy(a)
                    elif op["how"] == "magnitude":
                        result = Quantity(a.magnitude, a.units()) if a.units() else \
                            Quantity(a.magnitude)
                    else:
                        result = Quantity(op["x"], a) if op["how"] == "quantity" else \
                            Quantity(op["x"], a.units())
                elif kind == "neg":
                    result = -self._slot(op["a"])["q"]
                elif kind == "getitem":
                    i = op["i"]
                    if isinstance(i, list):
                        i = slice(i[0], i[1])
                    result = self._slot(op["a"])["q"][i]
                elif kind == "np":
                    a = self._slot(op["a"])["q"]
                    name = op["name"]
                    what = "np:" + name
                    if name == "power":
                        result = np.power(a, op["x"])
                    elif name in ("linspace", "logspace"):
                        b = self._slot(op["b"])["q"]
                        fn = np.linspace if name == "linspace" else np.logspace
                        if op.get("plain") == "a":
                            result = fn(1.0, b, op["n"])
                        elif op.get("plain") == "b":
                            result = fn(a, 2.0, op["n"])
                        else:
                            result = fn(a, b, op["n"])
                    else:
                        result = NPFUNCS[name](a)
                elif kind == "query":
                    a = self._slot(op["a"])["q"]
                    name = op["name"]
                    what = "query:" + name
                    if name == "value":
                        a.value()
                    elif name == "value_unit":
                        got = a.value(op["unit"])
                        if op["unit"]:
                            ok, ref = twin_reading(a, op["unit"])
                            if ok:
                                self.stats.probe("reading_compared_with_a_fresh_twin")
                                if not close_reading(got, ref):
                                    raise Violation(
                                        "long_lived_quantity_reads_differently_from_a_fresh_one",
                                        {"quantity": [repr(a.value()), a.units()],
                                         "unit": op["unit"], "reads": repr(got),
                                         "a_fresh_quantity_of_the_same_value_and_units_reads": repr(ref)},
                                        signature="C07/twin_reading/" + ("log" if a.units() in LOGU or op["unit"] in LOGU else "other"))
                        if isinstance(got, np.ndarray) and got.size and op["unit"]:
                            # the caller owns what a query returns: scribbling over it must
                            # not show up in the quantity or in the next query
                            keep = got.copy()
                            got[...] = -7.25
                            again = a.value(op["unit"])
                            if not (isinstance(again, np.ndarray) and
                                    np.array_equal(again, keep, equal_nan=True)):
                                raise Violation(
                                    "query_result_shared_with_quantity",
                                    {"unit": op["unit"], "first": np.array2string(keep),
                                     "after_caller_changed_it": np.array2string(np.asarray(again))},
                                    signature="C07/query_result_alias")
                    elif name == "value_dtype":
                        # a query whose type cast may fail after the conversion succeeded
                        dt = {"float": float, "int": int, "str-int": "int",
                              "float32": np.float32}[op.get("dtype", "float")]
                        a.value(op["unit"], dtype=dt)
                    elif name == "units":
                        a.units()
                    elif name == "abse":
                        a.abse()
                    elif name == "rele":
                        a.rele()
                    elif name == "str":
                        str(a)
                    else:
                        repr(a)
                elif kind == "inplace":
                    target = op["a"] % len(self.pool)
                    a = self.pool[target]["q"]
                    name = op["name"]
                    what = "inplace:" + name
                    self.inplace_seen = True
                    if name == "to":
                        # what a fresh quantity built from a's own report reads in that unit:
                        # whatever an operand remembers from its past (an earlier conversion, an
                        # operator it took part in) must not show in its next conversion
                        ok, ref = twin_reading(a, op["unit"]) if isinstance(op["unit"], str) \
                            and op["unit"] else (False, None)
                        a.to(op["unit"])
                        if ok:
                            self.stats.probe("conversion_compared_with_a_fresh_twin")
                            got = a.value()
                            if not close_reading(got, ref):
                                raise Violation(
                                    "long_lived_quantity_converts_differently_from_a_fresh_one",
                                    {"to": op["unit"], "got": safe_repr(got),
                                     "fresh_quantity_of_the_same_value_and_unit": safe_repr(ref),
                                     "before": show(before[target])},
                                    signature=f"{self.cfg['prop']}/twin_to")
                    elif name == "to_quantity":
                        from decimal import Decimal as _D
                        tq = {"two": 2.0, "zero": 0.0, "arr2": np.array([1.0, 2.0]),
                              "arr3": np.array([1.0, 2.0, 4.0]),
                              "decimal": _D("2")}[op.get("tq", "two")]
                        a.to(Quantity(tq, op["unit"]))
                    elif name == "to_baseunits":
                        a.to(self._slot(op.get("b", 0))["q"].baseunits)
                    elif name == "rebase":
                        a.rebase()
                    elif name == "abse" and op.get("e_member") is not None:
                        a.abse(self._slot(op["e_member"])["q"])
                    elif name == "abse":
                        a.abse(op["e"])
                    elif name == "rele":
                        a.rele(op["e"])
                    self.pool[target]["fam"] = self.pool[target]["fam"]
                else:
                    return "skip", None
            except Violation:
                raise
            except Exception as e:
                outcome = "raised:" + type(e).__name__
                if kind == "inplace":
                    # the method failed: it did not convert, rebase or set anything, so its
                    # own object has to report what it did before as well
                    failed_target, target = target, None
                    self.stats.fault("failing_inplace_" + op["name"], True)
        # the oracle: every member except the in-place target reports what it did before
        sharers = ()
        if kind == "inplace" and op.get("name") in ("abse", "rele"):
            t_ = target if target is not None else failed_target
            mg = self.pool[t_].get("mg") if t_ is not None else None
            if mg is not None:
                sharers = [i for i, e in enumerate(self.pool) if e.get("mg") == mg]
        for i, e in enumerate(self.pool):
            if i == target or (i in sharers and i != failed_target):
                continue
            if i == failed_target:
                try:
                    after = snap(e["q"], deep=True)
                except Exception as ex:
                    after = ("unreadable", type(ex).__name__, None)
                if not same_snap(before[i], after):
                    raise Violation(
                        "failed_inplace_method_changed_its_object",
                        {"operation": what, "outcome": outcome, "op": {k: v for k, v in op.items()
                                                                       if k != "of"},
                         "before": show(before[i]) + list(before[i][3:]),
                         "after": show(after) + list(after[3:])},
                        signature=f"C07/failed_inplace/{op['name']}")
                continue
            try:
                after = snap(e["q"], deep=True)
            except Exception as ex:
                raise Violation("operand_unreadable",
                                {"operation": what, "member": i, "before": show(before[i]),
                                 "error": [type(ex).__name__, repr(ex.args)[:200]]},
                                signature=f"C07/unreadable/{what}")
            if not same_snap(before[i], after):
                roles = self._roles(op, i)
                relation = self._relation_c07(op, i)
                raise Violation(
                    "operand_changed" if roles != "bystander" else "bystander_changed",
                    {"operation": what, "member": i, "role": roles, "outcome": outcome,
                     "before": show(before[i]) + list(before[i][3:]),
                     "after": show(after) + list(after[3:])},
                    signature=f"C07/changed/{what}/role={roles}/{relation}")
        for i, e in enumerate(self.pool):
            if "src" in e and not np.array_equal(e["src"], e["src0"], equal_nan=True):
                raise Violation("callers_array_changed",
                                {"operation": what, "member": i,
                                 "before": np.array2string(e["src0"]),
                                 "after": np.array2string(e["src"])},
                                signature=f"C07/caller_array/{what}")
        if self.inplace_seen and len(self.pool) >= 2:
            self.nontrivial = True
        if isinstance(result, Quantity):
            fam = None
            if kind in ("neg", "getitem", "new_from") or (kind in ("bin", "num") and
                                              op["name"] in ("add", "sub", "radd", "rsub",
                                                             "iadd", "isub")):
                fam = self._slot(op["a"])["fam"]
            elif kind == "np" and op["name"] in ("abs", "absolute", "round", "floor", "ceil",
                                                 "sum", "linspace", "logspace", "negative"):
                fam = self._slot(op["a"])["fam"]
            src_ent = self._slot(op["a"]) if kind == "new_from" and \
                op.get("how") in ("copy", "magnitude") else None
            k = self._add(result, fam)
            if src_ent is not None:
                # a shallow copy / a second quantity over the same Magnitude object shares that
                # object by the caller's own doing: the setters abse(e) / rele(e) write into it
                # and show in every sharer (to() and rebase() do not - the library's own operand
                # protection rests on that)
                mg = src_ent.setdefault("mg", self._counter)
                self.pool[k]["mg"] = mg
                self.stats.probe("member_sharing_a_magnitude")
            return outcome, [what, result.units()]
        return outcome, [what, repr(result) if isinstance(result, (bool, np.bool_)) else None]

    def _poke_c07(self, op):
        """The caller changes an array in place.  Its own source array: no quantity may notice.
        The array value() returned: that quantity changes (it is its storage), no other."""
        i = op["a"] % len(self.pool)
        e = self.pool[i]
        before = [snap(x["q"], deep=True) for x in self.pool]
        allowed = None
        if op["how"] == "src":
            if "src" not in e:
                return "skip", None
            e["src"][...] = e["src"] * 3.0 + 1.0
            e["src0"] = e["src"].copy()
            what = "caller changed the array it had built the quantity from"
        else:
            try:
                v = e["q"].value()
            except Exception as ex:
                return "poke_failed", type(ex).__name__
            if not isinstance(v, np.ndarray) or v.size == 0 or not v.flags.writeable:
                return "skip", None
            with np.errstate(all="ignore"):
                v[...] = v * 3.0 + 1.0
            allowed = i
            what = "caller wrote into the array value() returned"
        self.stats.fault("caller_writes_into_an_array", True)
        mg = e.get("mg")
        for j, x in enumerate(self.pool):
            if j == allowed or (allowed is not None and mg is not None and x.get("mg") == mg):
                continue        # (members made to share one Magnitude share its storage)
            try:
                after = snap(x["q"], deep=True)
            except Exception as ex:
                after = ("unreadable", type(ex).__name__, None)
            if not same_snap(before[j], after):
                raise Violation("quantities_share_an_array",
                                {"what": what, "array_of_member": i, "changed_member": j,
                                 "before": show(before[j]), "after": show(after)},
                                signature=f"C07/shared_array/{op['how']}/"
                                          f"{'self' if i == j else 'other'}")
        self.nontrivial = True
        return "poked", op["how"]

    def _stale_rebase(self, op):
        from scinumtools.units import UnitEnvironment
        u1, u2 = op["pair"]
        kw = {"abse": op["abse"]} if op.get("abse") else {}
        units = {"zork": {"magnitude": 7.0, "dimensions": [0, 0, 0, 0, 0, 0, 1, 0]}}
        try:
            with UnitEnvironment(units):
                parts = [Quantity(op["x"], u1, **kw), Quantity(2.0, u2), Quantity(1.0, "zork")]
                o = op.get("order", 0) % 3
                parts = parts[o:] + parts[:o]
                p = parts[0] * parts[1] * parts[2]
            before = snap(p, deep=False)
        except Exception as e:
            return "stale_setup_failed", type(e).__name__
        try:
            with np.errstate(all="ignore"):
                p.rebase()
        except Exception as e:
            self.stats.fault("failing_inplace_rebase_stale_unit", True)
            self.inplace_seen = True
            try:
                after = snap(p, deep=False)
            except Exception as ex:
                after = ("unreadable", type(ex).__name__, None)
            if not same_snap(before, after):
                raise Violation("failed_inplace_method_changed_its_object",
                                {"operation": "inplace:rebase", "outcome": "raised:" + type(e).__name__,
                                 "product": f"{u1}*{u2}*zork built inside a scope, rebased after it",
                                 "before": show(before), "after": show(after)},
                                signature="C07/failed_inplace/rebase")
            if op.get("retry"):
                # the caller re-opens the scope and tries again: one rebase, not two
                try:
                    with UnitEnvironment(units):
                        ref = parts[0] * parts[1] * parts[2]
                        ref.rebase()
                        p.rebase()
                        want, got = snap(ref), snap(p)
                except Exception as ex:
                    return "stale_retry_failed", type(ex).__name__
                if not same_snap(want, got):
                    raise Violation("failed_inplace_method_changed_its_object",
                                    {"operation": "inplace:rebase retried inside a new scope",
                                     "got": show(got), "want": show(want)},
                                    signature="C07/failed_inplace/rebase")
            return "raised:" + type(e).__name__, ["inplace:rebase", None]
        return "stale_rebase_ok", None

    def _roles(self, op, i):
        n = len(self.pool)
        roles = []
        for key, name in (("a", "left"), ("b", "right")):
            if key in op and isinstance(op[key], int) and op[key] % n == i:
                roles.append(name)
        if op.get("op") == "inplace":
            return "unit-donor" if "right" in roles else "bystander"
        return "+".join(roles) if roles else "bystander"

    def _relation_c07(self, op, i):
        if "b" in op and "a" in op and isinstance(op.get("b"), int):
            ea, eb = self._slot(op["a"]), self._slot(op["b"])
            if op["a"] % len(self.pool) == op["b"] % len(self.pool):
                return "same-object"
            try:
                ua, ub = ea["q"].units(), eb["q"].units()
            except Exception:
                return "?"
            if ea["fam"] is not None and ea["fam"] == eb["fam"]:
                return "same-family"
            return "other-family"
        return "single"

    def _resolve_follow(self, op):
        """In-place operation on the newest member or on an operand of the previous op."""
        of = op["of"]
        n = len(self.pool)
        if op["who"] == "result":
            a = self.last_slot if self.last_slot is not None else n - 1
        elif op["who"] == "a" or "b" not in of or not isinstance(of.get("b"), int):
            a = of.get("a", 0)
        else:
            a = of["b"]
        a = a % n
        fam = self.pool[a]["fam"]
        k = op["kind"]
        out = {"op": "inplace", "name": k, "a": a}
        if k == "to":
            units = FAMILIES.get(fam) or ["m", "s", "g", "J", "rad", None, "K", "W"]
            out["unit"] = units[op["unit_i"] % len(units)]
        else:
            out["e"] = op["e"]
        return out

    # -- C04 -----------------------------------------------------------------------------------
    def _apply_c04(self, op):
        kind = op["op"]
        if kind == "new_linear":
            terms = [list(t) for t in op["terms"]]
            text = UM.text(terms, op["style"])
            v, kw = self._mk(op)
            try:
                unit = text
                if op.get("negden") and terms:
                    unit = UM.text(terms, 0, negden=True)
                form = op.get("unit_form")
                if form == "baseunits" and terms:
                    unit = Quantity(1, text).baseunits
                elif form == "quantity" and terms:
                    unit = Quantity(1, text)
                elif form == "member" and terms and self.pool:
                    # the unit object of a live member of the same unit, if there is one
                    for e_ in self.pool:
                        if e_["led"] is not None and e_["led"]["text"] == text:
                            unit = e_["q"].baseunits
                            break
                q = Quantity(v, unit, **kw) if terms else Quantity(v, **kw)
            except Exception as e:
                raise Violation("linear_unit_rejected",
                                {"unit": text, "error": [type(e).__name__, repr(e.args)[:200]]},
                                signature="C04/construct_rejected")
            f = UM.factor(terms)
            if not (1e-200 < f < 1e200):
                return "skip_range", None
            x = np.array(op["value"], dtype=float) if op["kind"] == "array" else float(op["value"])
            led = {"B": x * f, "dims": UM.dims(terms), "terms": terms, "origin": terms,
                   "chain": 0, "text": text, "x0": x}
            if not np.all(np.isfinite(led["B"])) or np.any(
                    (np.abs(led["B"]) > 1e290) | ((np.abs(led["B"]) < 1e-290) & (led["B"] != 0))):
                return "skip_range", None
            k = self._add(q, None, led)
            if isinstance(v, np.ndarray):
                self.pool[k]["src"] = v          # the caller keeps its array
            return "new", text
        if kind == "rebase_member":
            if not self.pool:
                return "skip", None
            e = self._slot(op["a"])
            q, led = e["q"], e["led"]
            if led is None or not led["terms"]:
                return "skip", None
            fv = UM.factor(led["terms"])
            want = led["B"] / fv
            if not (1e-200 < fv < 1e200) or not np.all(np.isfinite(want)):
                return "skip_range", None
            try:
                with np.errstate(all="ignore"):
                    q.rebase()
                    got = q.value(led["text"])
            except Exception as ex:
                raise Violation("same_dimension_conversion_refused",
                                {"from": led["text"], "via": "rebase()", "to": led["text"],
                                 "error": [type(ex).__name__, repr(ex.args)[:200]]},
                                signature="C04/accept_missing/rebase")
            if not self._close(got, want, (led["chain"] + 2) * 1e-12):
                raise Violation("converted_value_wrong",
                                {"from": led["text"], "via": "rebase() -> " + safe_repr(q.units()),
                                 "to": led["text"], "got": safe_repr(got), "want": safe_repr(want)},
                                signature="C04/value/rebase")
            # back to the unit text the ledger knows
            try:
                with np.errstate(all="ignore"):
                    q.to(led["text"])
            except Exception as ex:
                raise Violation("same_dimension_conversion_refused",
                                {"from": safe_repr(q.units()), "via": "to() after rebase()",
                                 "to": led["text"],
                                 "error": [type(ex).__name__, repr(ex.args)[:200]]},
                                signature="C04/accept_missing/rebase_back")
            led["chain"] += 2
            self.nontrivial = True
            return "rebase_ok", led["text"]
        if kind == "poke_src":
            # the caller reuses its buffer: the quantity was built from the numbers, not from
            # the buffer, so the ledger does not move
            e = self._slot(op["a"]) if self.pool else None
            if e is None or "src" not in e:
                return "skip", None
            e["src"][...] = e["src"] * 3.0 + 1.0
            self.stats.fault("caller_writes_into_an_array", True)
            return "poked", None
        if kind == "custom_scope":
            return self._apply_custom_scope(op)
        if kind == "new_root":
            terms = [list(t) for t in op["terms"]]
            n = 3 if op["how"] == "cbrt" else 2
            up = [[p_, s_, num * n, den] for p_, s_, num, den in terms]
            f = UM.factor(terms)
            if not terms or not (1e-100 < f < 1e100) or not (1e-200 < UM.factor(up) < 1e200):
                return "skip_range", None
            if op["how"] == "pow_float" and any(den != 1 for _, _, _, den in terms):
                # how a float exponent acts on a fractional unit exponent is C06's matter
                return "skip_float_power", None
            x = float(op["value"])
            try:
                with np.errstate(all="ignore"):
                    big = Quantity(x, UM.text(up, 0))
                    if op["how"] == "sqrt":
                        q = np.sqrt(big)
                    elif op["how"] == "cbrt":
                        q = np.cbrt(big)
                    elif op["how"] == "pow_pair":
                        q = big ** (1, 2)
                    elif op["how"] == "pow_pair_nn":
                        q = big ** (-1, -2)          # the same exponent, both signs flipped
                    elif op["how"] == "pow_pair_negden":
                        q = big ** (1, -2)           # the inverse root, sign on the denominator
                    else:
                        q = big ** 0.5
            except Exception as e:
                raise Violation("root_of_a_linear_quantity_failed",
                                {"unit": UM.text(up, 0), "how": op["how"],
                                 "error": [type(e).__name__, repr(e.args)[:200]]},
                                signature="C04/root/failed")
            root = x ** (1.0 / n)
            if op["how"] == "pow_pair_negden":
                root = 1.0 / root
                terms = [[p_, s_, -num, den] for p_, s_, num, den in terms]
                f = UM.factor(terms)
            led = {"B": root * f, "dims": UM.dims(terms), "terms": terms, "origin": terms,
                   "chain": 0, "text": UM.text(terms, 0), "x0": root}
            self._add(q, None, led)
            return "new_root", [op["how"], led["text"]]
        if kind == "conv_to_member":
            if len(self.pool) < 2:
                return "skip", None
            ea, eb = self._slot(op["a"]), self._slot(op["b"])
            la, lb = ea["led"], eb["led"]
            if ea is eb or la is None or lb is None or tuple(la["dims"]) != tuple(lb["dims"]) \
                    or la["chain"] >= self.cfg["max_chain"]:
                return "skip", None
            fv = UM.factor(lb["terms"])
            want = la["B"] / fv
            if not np.all(np.isfinite(want)) or np.any(
                    (np.abs(want) > 1e290) | ((np.abs(want) < 1e-290) & (want != 0))):
                return "skip_range", None
            before_b = snap(eb["q"])
            before_a = snap(ea["q"])
            by_value = op.get("how") == "value"
            try:
                with np.errstate(all="ignore"):
                    if by_value:
                        # the same unit object as the target of an out-of-place query
                        got = ea["q"].value(eb["q"].baseunits)
                    else:
                        ea["q"].to(eb["q"].baseunits)
                        got = ea["q"].value()
            except Exception as ex:
                raise Violation("same_dimension_conversion_refused",
                                {"from": la["text"], "to": str(lb["text"]) + " (unit object of another "
                                 "quantity)", "error": [type(ex).__name__, repr(ex.args)[:200]]},
                                signature="C04/accept_missing/to_member")
            n = la["chain"] + 1
            if not self._close(got, want, n * 1e-12):
                raise Violation("converted_value_wrong",
                                {"from": la["text"], "to": lb["text"], "how": "to(member units)",
                                 "got": safe_repr(got), "want": safe_repr(want)},
                                signature="C04/value/to_member")
            if not same_snap(before_b, snap(eb["q"])):
                raise Violation("unit_donor_changed", {"donor": lb["text"]},
                                signature="C04/to_member/donor_changed")
            if by_value:
                if not same_snap(before_a, snap(ea["q"])):
                    raise Violation("value_query_changed_quantity",
                                    {"unit": lb["text"], "before": show(before_a),
                                     "after": show(snap(ea["q"]))},
                                    signature="C04/value_query_changed")
                return "value_member_ok", [la["text"], lb["text"]]
            la.update(terms=[list(t) for t in lb["terms"]], text=lb["text"], chain=n)
            self.nontrivial = True
            return "to_member_ok", [la["text"], n]
        if kind == "conv_to_quantity":
            if len(self.pool) < 2:
                return "skip", None
            ea, eb = self._slot(op["a"]), self._slot(op["b"])
            la, lb = ea["led"], eb["led"]
            if ea is eb or la is None or lb is None or tuple(la["dims"]) != tuple(lb["dims"]) \
                    or la["chain"] >= self.cfg["max_chain"]:
                return "skip", None
            fv = UM.factor(lb["terms"])
            if not (1e-200 < fv < 1e200):
                return "skip_range", None
            before_a, before_b = snap(ea["q"]), snap(eb["q"])
            try:
                with np.errstate(all="ignore"):
                    ea["q"].to(eb["q"])
                    got = ea["q"].value()
            except Exception as ex:
                # e.g. division by a zero magnitude, arrays of different shapes: no conversion
                # took place, so the quantity has to be the one it was
                self.stats.fault("failing_to_quantity", True)
                self.nontrivial = True
                try:
                    after = snap(ea["q"])
                except Exception as ex2:
                    after = ("unreadable", type(ex2).__name__, None)
                if not same_snap(before_a, after):
                    raise Violation("failed_conversion_changed_the_quantity",
                                    {"from": la["text"], "to": f"multiples of {show(before_b)[0]} {lb['text']}",
                                     "error": [type(ex).__name__, repr(ex.args)[:200]],
                                     "before": show(before_a), "after": show(after)},
                                    signature="C04/failed_to_quantity")
                return "to_quantity_failed", type(ex).__name__
            if not same_snap(before_b, snap(eb["q"])):
                raise Violation("unit_donor_changed", {"donor": lb["text"]},
                                signature="C04/to_quantity/donor_changed")
            with np.errstate(all="ignore"):
                try:
                    mb = np.asarray(lb["B"], dtype=float) / fv
                    want = (np.asarray(la["B"], dtype=float) / fv) / mb
                except Exception:
                    want = None
            n = la["chain"] + 1
            if want is None or not np.all(np.isfinite(want)) or np.any(
                    (np.abs(want) > 1e290) | ((np.abs(want) < 1e-290) & (want != 0))) or np.any(
                    (np.abs(mb) > 1e150) | (np.abs(mb) < 1e-150)):
                ea["led"] = None          # out of the range the ledger speaks about
                return "to_quantity_unchecked", None
            if np.ndim(want) == 0:
                want = float(want)
            if not self._close(got, want, n * 1e-12):
                raise Violation("converted_value_wrong",
                                {"from": la["text"], "to": f"multiples of {show(before_b)[0]} {lb['text']}", "got": safe_repr(got), "want": safe_repr(want)},
                                signature="C04/value/to_quantity")
            la.update(B=np.asarray(want) * fv if np.ndim(want) else want * fv,
                      terms=[list(t) for t in lb["terms"]], text=lb["text"], chain=n)
            self.nontrivial = True
            return "to_quantity_ok", [la["text"], n]
        if kind == "acc_poke":
            try:
                getattr(self.acc, op["sym"]).to(op["to"])
            except Exception as e:
                return "acc_poke_failed", type(e).__name__
            return "acc_poked", [op["sym"], op["to"]]
        if kind == "alias_inplace":
            if not self.pool:
                return "skip", None
            import copy as _copy
            q = self._slot(op["a"])["q"]
            led = self._slot(op["a"])["led"]
            try:
                with np.errstate(all="ignore"):
                    if op["derive"] == "add_zero":
                        t = q + Quantity(0, q.units())
                    elif op["derive"] == "neg":
                        t = -q
                    elif op["derive"] == "getitem" and isinstance(q.value(), np.ndarray):
                        t = q[0]
                    else:
                        t = _copy.copy(q)
                    if op["what"] == "rebase":
                        t.rebase()
                    elif led is not None:
                        t.to(UM.text(led["origin"], 0))
            except Exception as e:
                return "alias_failed", type(e).__name__
            return "alias_done", [op["derive"], op["what"]]
        if kind != "conv" or not self.pool:
            return "skip", None
        e = self._slot(op["a"])
        q, led = e["q"], e["led"]
        if led is None:
            return "skip", None
        terms = [list(t) for t in op["terms"]]
        text = UM.text(terms, op["style"])
        if not terms:
            # "no unit": None or an empty mapping as the target of to()
            text = {} if op.get("number_form") == "dict" else None
            op = dict(op, how="to")
            self.stats.probe("plain_number_as_target")
        rel = self._relation(led["dims"], UM.dims(terms), bare=not led["terms"])
        if not led["terms"] and terms and terms != [["", "rad", 1, 1]] and \
                (rel == "number_to_rad" or all(t[1] == "rad" for t in terms)):
            # the statement speaks of radians only; prefixed, powered or other angle
            # units as the target of a bare number are left open
            return "skip_unspecified", None
        before = snap(q)
        if led["chain"] >= self.cfg["max_chain"]:
            return "skip_chain", None
        fv = UM.factor(terms)
        if not (1e-200 < fv < 1e200):
            return "skip_range", None
        B = led["B"]
        with np.errstate(all="ignore"):
            if rel == "refused":
                self.nontrivial = True
                try:
                    got = q.value(text) if op["how"] == "value" else q.to(text)
                    raised = None
                except Exception as ex:
                    raised = ex
                self.stats.fault("refused_" + op.get("fault", "other"), raised is not None)
                if raised is None:
                    raise Violation("conversion_between_dimensions_accepted",
                                    {"from": led["text"], "to": text, "how": op["how"],
                                     "result": safe_repr(got)},
                                    signature=f"C04/refusal_missing/{op['how']}")
                after = snap(q)
                if not (same_snap(before, after) and type(before[0]) is type(after[0])):
                    raise Violation("refused_conversion_changed_quantity",
                                    {"from": led["text"], "to": text, "how": op["how"],
                                     "before": show(before), "after": show(after)},
                                    signature=f"C04/refused_changed/{op['how']}")
                return "refused", [led["text"], text]
            # accepted conversions ----------------------------------------------------
            zero_recip = False
            if rel == "reciprocal":
                if np.any(np.asarray(B) == 0):
                    if not isinstance(B, np.ndarray) or op["how"] != "value":
                        return "skip_zero_recip", None
                    # element-wise reciprocal of an array holding zeros: +-inf by the sign of
                    # the zero, the other elements as usual (out-of-place query only)
                    zero_recip = True
                newB = 1.0 / B
            else:
                newB = B
            want = newB / fv
            if zero_recip:
                fin = np.isfinite(want)
                if np.any((np.abs(want[fin]) > 1e290) | ((np.abs(want[fin]) < 1e-290) & (want[fin] != 0))):
                    return "skip_range", None
                try:
                    got = q.value(text)
                except Exception as ex:
                    return "zero_recip_refused", type(ex).__name__
                self.stats.probe("reciprocal_of_an_array_with_zeros")
                if not self._close(got, want, (led["chain"] + 1) * 1e-12):
                    raise Violation("converted_value_wrong",
                                    {"from": led["text"], "to": text, "relation": rel, "how": "value",
                                     "got": safe_repr(got), "want": safe_repr(want)},
                                    signature="C04/value/reciprocal_zero")
                return "value_ok:reciprocal_zero", [led["text"], text]
            if not np.all(np.isfinite(want)) or np.any(
                    (np.abs(want) > 1e290) | ((np.abs(want) < 1e-290) & (want != 0))):
                return "skip_range", None
            target = text
            if op.get("acc") and len(terms) == 1 and terms[0][2:] == [1, 1] and \
                    (terms[0][0] + terms[0][1]).isidentifier():
                target = getattr(self.acc, terms[0][0] + terms[0][1])   # Unit().km as target
                self.stats.probe("accessor_unit_as_target")
            try:
                if op["how"] == "value" and target is text:
                    got = q.value(text)
                else:
                    q.to(target)
                    got = q.value()
                    if op["how"] == "value":
                        op = dict(op, how="to")      # value() takes no Quantity: done in place
            except Exception as ex:
                raise Violation("same_dimension_conversion_refused",
                                {"from": led["text"], "to": text, "relation": rel,
                                 "error": [type(ex).__name__, repr(ex.args)[:200]]},
                                signature=f"C04/accept_missing/{rel}")
        n = led["chain"] + 1
        tol = n * 1e-12
        if not self._close(got, want, tol):
            raise Violation("converted_value_wrong",
                            {"from": led["text"], "to": text, "relation": rel, "how": op["how"],
                             "got": show((got, None, None))[0], "want": show((want, None, None))[0],
                             "chain": n, "start": [repr(led["x0"]), UM.text(led["origin"], 0)]},
                            signature=f"C04/value/{rel}")
        if op["how"] == "value":
            after = snap(q)
            if not same_snap(before, after):
                raise Violation("value_query_changed_quantity",
                                {"unit": text, "before": show(before), "after": show(after)},
                                signature="C04/value_query_changed")
            return "value_ok:" + rel, [led["text"], text]
        if q.units() != text and UM.text(terms, 0) != q.units():
            pass   # rendering is C03's business
        led.update(B=newB, dims=UM.dims(terms), terms=terms, text=text, chain=n)
        if n >= 2:
            self.nontrivial = True
        # uncertainty: conserved relative to the value is C08; here only "still readable"
        q.abse()
        return "to_ok:" + rel, [led["text"], n]

    def _apply_custom_scope(self, op):
        from scinumtools.units import UnitEnvironment
        base = [list(t) for t in op["base"]]
        btext = UM.text(base, 0)
        fb = UM.factor(base)
        dims = [int(x) if x.denominator == 1 else (x.numerator, x.denominator)
                for x in UM.dims(base)]
        sym, mag, x = op["sym"], float(op["mag"]), float(op["x"])
        units = {sym: {"magnitude": mag * fb, "dimensions": dims,
                       "prefixes": ["k"] if op.get("prefix") else False}}
        self.nontrivial = True
        try:
            with UnitEnvironment(units):
                checks = [(Quantity(x, sym).value(btext), x * mag, f"{sym}->{btext}"),
                          (Quantity(x, btext).value(sym), x / mag, f"{btext}->{sym}")]
                if op.get("prefix"):
                    checks.append((Quantity(x, "k" + sym).value(btext), x * mag * 1e3,
                                   f"k{sym}->{btext}"))
                q = Quantity(x, sym)
                q.to(btext)
                q.to(sym)
                checks.append((q.value(), x, f"{sym}->{btext}->{sym}"))
                late = None
                if op.get("late"):
                    late = [Quantity(x, sym), Quantity(x, btext)]
                    if op.get("prefix"):
                        late.append(Quantity(x, "k" + sym))
                if op.get("inner"):
                    inner = {"zork": {"magnitude": 7.0, "dimensions": [0, 0, 1, 0, 0, 0, 0, 0]}}
                    if op["inner"] == "fails":
                        inner["m"] = {"magnitude": 1.0, "dimensions": [1, 0, 0, 0, 0, 0, 0, 0]}
                    if op["inner"] == "fails_clash":
                        # 'kt' reads as kilo-tonne: a refused registration must not shadow it
                        inner["kt"] = {"magnitude": 0.514, "dimensions": [1, 0, -1, 0, 0, 0, 0, 0]}
                    try:
                        with UnitEnvironment(inner):
                            Quantity(1, "zork").value("s")
                    except Exception:
                        pass
                    if op["inner"] == "fails_clash":
                        checks.append((Quantity(2.5, "kt").value("kg"), 2.5e6,
                                       "kt->kg after a scope defining 'kt' was refused"))
                    # the enclosing scope's unit is still there and still means the same
                    checks.append((Quantity(x, sym).value(btext), x * mag,
                                   f"{sym}->{btext} after an inner scope ({op['inner']})"))
                try:
                    other = "s" if btext != "s" else "m"
                    Quantity(x, sym).value(other)
                    refused = False
                except Exception:
                    refused = True
            if late:
                self.stats.probe("custom_unit_quantity_first_converted_after_its_scope")
                wants = [x * mag, x, x * mag * 1e3]
                if op["late"] == "redefined":
                    units2 = {sym: {"magnitude": 3 * mag * fb, "dimensions": dims,
                                    "prefixes": ["k"] if op.get("prefix") else False}}
                    with UnitEnvironment(units2):
                        for lq, w in zip(late, wants):
                            checks.append((lq.value(btext), w, f"made as {x} {lq.units()} while "
                                           f"{sym} = {mag} {btext}, read in {btext} while {sym} = "
                                           f"{3 * mag} {btext}"))
                        checks.append((Quantity(x, sym).value(btext), 3 * x * mag,
                                       f"{sym}->{btext} in the later scope"))
                else:
                    for lq, w in zip(late, wants):
                        checks.append((lq.value(btext), w, f"made as {x} {lq.units()} inside the "
                                       f"scope, read in {btext} after it"))
        except Violation:
            raise
        except Exception as e:
            raise Violation("custom_unit_conversion_failed",
                            {"symbol": sym, "base": btext, "magnitude": mag,
                             "error": [type(e).__name__, repr(e.args)[:200]]},
                            signature="C04/custom/accept_missing")
        for got, want, what in checks:
            if not self._close(got, want, 1e-12):
                raise Violation("converted_value_wrong",
                                {"conversion": what, "custom_unit": f"{sym} = {mag} {btext}",
                                 "x": x, "got": safe_repr(got), "want": want},
                                signature="C04/custom/value")
        if not refused:
            raise Violation("conversion_between_dimensions_accepted",
                            {"from": sym, "custom_unit": f"{sym} = {mag} {btext}"},
                            signature="C04/custom/refusal_missing")
        return "custom_ok", [sym, btext]

    @staticmethod
    def _close(got, want, tol):
        try:
            g = np.asarray(got, dtype=float)
        except Exception:
            return False
        w = np.asarray(want, dtype=float)
        if g.shape != w.shape:
            return False
        with np.errstate(all="ignore"):
            fin = np.isfinite(g) & np.isfinite(w)      # infinities only equal themselves
            return bool(np.all((g == w) | (fin & (np.abs(g - w) <= tol * np.abs(w)))))

    # ------------------------------------------------------------------ shrinking / docs
    @classmethod
    def simplify(cls, op):
        k = op.get("op")
        if k in ("new", "new_linear"):
            if op.get("kind") == "array":
                v = op["value"]
                if len(v) > 1:
                    yield dict(op, value=v[:1])
                yield dict(op, kind="float", value=v[0])
            if op.get("abse") is not None or op.get("rele") is not None:
                yield dict(op, abse=None, rele=None)
            if op.get("kind") == "decimal":
                yield dict(op, kind="float", value=float(op["value"]))
            if op.get("kind") == "float" and op["value"] not in (1.0, 2.0):
                yield dict(op, value=2.0)
        if k == "follow":
            yield {"op": "skip"}
        if k in ("new_linear", "conv"):
            t = op["terms"]
            if len(t) > 1:
                for i in range(len(t)):
                    yield dict(op, terms=t[:i] + t[i + 1:])
            for i, (p, s, n, d) in enumerate(t):
                if p:
                    yield dict(op, terms=t[:i] + [["", s, n, d]] + t[i + 1:])
                if (n, d) != (1, 1):
                    yield dict(op, terms=t[:i] + [[p, s, 1, 1]] + t[i + 1:])
            if op.get("style"):
                yield dict(op, style=0)

    @classmethod
    def rule(cls, prop):
        if prop == "C04":
            return ("runs: seeded chains of in-place to() and value(v) on a pool of live "
                    "quantities in linear table units (random symbol subset x admissible prefix "
                    "x integer/fractional exponent x compounds, '#' system units), interleaved "
                    "with refused conversions; a run is non-trivial when an object was converted "
                    "at least twice in a row (round trip / path independence via the conserved "
                    "base value) or a refused conversion was attempted; distinct = distinct "
                    "sequences of (op kind, pool size, outcome class incl. relation)")
        return ("runs: seeded operation histories over a pool of <= 8 live quantities (linear, "
                "prefixed, compound, dimensionless, logarithmic, temperature units; float, "
                "Decimal, array magnitudes; with/without uncertainty); results enter the pool; a "
                "run is non-trivial when an in-place method ran while >= 2 members were alive; "
                "distinct = distinct sequences of (op kind, abstract pre-state = pool size + "
                "in-place-seen flag, outcome class)")

    @classmethod
    def components(cls, prop):
        return {"real": ["units.Quantity", "units.Magnitude", "units.BaseUnits", "units.Fraction",
                         "units.Dimensions", "unit_types.StandardUnitType/TemperatureUnitType/"
                         "LogarithmicUnitType", "unit_solver.AtomParser", "NumPy dispatch "
                         "(__array_ufunc__/__array_function__)"],
                "stub": []}
