"""C20 — table, row and grid helpers behave like their simple models.

Stateful part (simulation): seeded operation histories on a real
ParameterTable (keyed and list mode) against an ordered dict / list model, and
on a real RowCollector (list and array mode) against a list-of-rows model,
including operations that fail (deleting / reading a missing key, appending a
dict with unknown columns) which must leave the object as it was.  All public
accessors are compared after every step.

Pure part (exhaustive small-range enumeration, labelled as such in the
evidence): DataPlotGrid cells and DataCombination products.
"""
import itertools
import math

import numpy as np

from .core import Machine, Violation

from scinumtools import ParameterTable, RowCollector, DataPlotGrid, DataCombination

KEYS = ["alpha", "beta", "gamma", "delta", "eps", "zeta", "eta", "theta", "x1", "y2", "k_9"]
FIELDS = ["a", "b", "c", "width", "name", "unit"]
COLS = ["col1", "col2", "col3", "name", "flag", "n"]


def eqv(a, b):
    """Value equality for cells (NumPy scalars equal their Python values)."""
    if a is None or b is None:
        return a is None and b is None
    if isinstance(a, (list, tuple)) or isinstance(b, (list, tuple)):
        return list(a) == list(b)
    try:
        if isinstance(a, (float, np.floating)) and isinstance(b, (float, np.floating, int)):
            return float(a) == float(b)
        r = a == b
        return bool(r)
    except Exception:
        return False


class HelpersMachine(Machine):
    NAME = "helpers"

    @classmethod
    def gen_config(cls, rng, prop, tier, _twin=False):
        target = rng.choice(["table_keyed", "table_keyed", "table_list", "rows_list",
                             "rows_list", "rows_array"])
        nf = rng.randint(1, 5)
        cfg = {"prop": prop, "tier": tier, "target": target,
               "max_ops": rng.randint(4, 40) if tier == "quick" else rng.randint(10, 120),
               "p_fail": rng.choice([0.0, 0.1, 0.25]),
               "fields": FIELDS[:nf], "keys": KEYS[:rng.randint(2, len(KEYS))],
               "initial": rng.random() < 0.5}
        nc = rng.randint(1, 4)
        types = [rng.choice(["int", "float", "str", "bool", "int_none"]) for _ in range(nc)]
        if target == "rows_array":
            types = [rng.choice(["int", "float", "str", "bool", "default", "uint"])
                     for _ in range(nc)]
        # column names in no particular (in particular: not alphabetical) order
        cfg["cols"] = rng.sample(COLS + ["zeta", "alpha", "Mid", "b2"], nc)
        cfg["types"] = types
        # content handed to the constructor instead of appended later
        cfg["init_rows"] = []
        if cfg["initial"] and target.startswith("table"):
            ks = rng.sample(cfg["keys"], rng.randint(1, min(3, len(cfg["keys"]))))
            cfg["init_rows"] = [[k, [rng.randint(0, 9) for _ in range(nf)]] for k in ks]
        cfg["init_data"] = []
        if cfg["initial"] and target.startswith("rows"):
            def cell(t):
                return {"int": 1, "float": 1.5, "str": "ab", "bool": True, "int_none": 2,
                        "default": 2.0, "uint": 3}[t]
            cfg["init_data"] = [[cell(t) for t in types] for _ in range(rng.randint(1, 3))]
        cfg["dict_start"] = rng.random() < 0.3 and target in ("rows_list", "rows_array")
        if cfg["dict_start"] and target == "rows_array":
            # columns created by the first dict row are plain float columns; rows mix
            # ints, floats and bools, all of which such a column must keep (as floats)
            cfg["types"] = ["default"] * nc
            cfg["mixed_numeric"] = True
        cfg["ties"] = rng.random() < 0.6
        # a second session: another table / collector, of a configuration of its own, is alive in
        # the same run and the two are used in turn (the merge order of the two sessions' operations
        # is the schedule); after every operation on either, both must be what their models say
        if not _twin and rng.random() < 0.35:
            cfg["twin"] = cls.gen_config(rng, prop, tier, _twin=True)
            if rng.random() < 0.5:
                # same kind and same column / field names: what a registry keyed by name would mix up
                t = {k: v for k, v in cfg.items() if k != "twin"}
                t.update(ties=cfg["twin"]["ties"], p_fail=cfg["twin"]["p_fail"], initial=False,
                         init_rows=[], init_data=[])
                cfg["twin"] = t
        return cfg

    # ------------------------------------------------------------------ lifecycle
    def start(self):
        c = self.cfg
        self.kind = c["target"]
        self.failed_ops = 0
        if self.kind.startswith("table"):
            self.fields = list(c["fields"])
            self.keyed = self.kind == "table_keyed"
            init = c.get("init_rows") or []
            if self.keyed:
                params = {k: list(v) for k, v in init}
                self.t = ParameterTable(list(self.fields), params, keys=True) if params \
                    else ParameterTable(list(self.fields), keys=True)
                self.model = {k: dict(zip(self.fields, v)) for k, v in init}
            else:
                rows = [list(v) for _, v in init]
                self.t = ParameterTable(list(self.fields), rows) if rows \
                    else ParameterTable(list(self.fields))
                self.model = [dict(zip(self.fields, v)) for _, v in init]
        else:
            self.cols = list(c["cols"])
            self.types = list(c["types"])
            self.array = self.kind == "rows_array"
            if c.get("dict_start"):
                self.rc = RowCollector(array=True) if self.array else RowCollector()
                self.cols_known = False
            elif self.array:
                spec = {}
                plain = all(t == "default" for t in self.types)
                for n, t in zip(self.cols, self.types):
                    spec[n] = {} if t == "default" else {"dtype": {"int": int, "float": float,
                                                                  "str": str, "bool": bool,
                                                                  "uint": np.uint16}[t]}
                self._columns_arg = list(self.cols) if plain else spec
                self.rc = RowCollector(self._columns_arg, array=True)
                self.cols_known = True
            else:
                self.rc = RowCollector(list(self.cols))
                self.cols_known = True
            self.rows = []
            init = c.get("init_data") or []
            if init and self.cols_known:
                # same collector, but the first rows go through the constructor
                spec = getattr(self, "_spec", None)
                if self.array:
                    self.rc = RowCollector(self._columns_arg, [list(r) for r in init], array=True)
                else:
                    self.rc = RowCollector(list(self.cols), [list(r) for r in init])
                self.rows = [[self._cast(v, t) for v, t in zip(r, self.types)] for r in init]
        self.abstract = "n0"
        self.twin = None
        if c.get("twin"):
            self.twin = HelpersMachine(dict(c["twin"], twin=None))
            self.twin.stats = self.stats
            self.twin.start()

    # ------------------------------------------------------------------ generation
    def _cell(self, rng, t):
        small = self.cfg["ties"]
        if t == "int":
            return rng.randint(0, 3) if small else rng.randint(-1000, 1000)
        if t == "uint":
            return rng.randint(0, 3) if small else rng.choice([0, 0, 1, 2, 5, 40, 65535])
        if t == "default" and self.cfg.get("mixed_numeric"):
            r = rng.random()
            if r < 0.4:
                return rng.randint(0, 5)
            if r < 0.5:
                return rng.random() < 0.5
            return round(rng.uniform(-10, 10), 2)
        if t in ("float", "default"):
            return float(rng.randint(0, 3)) if small else round(rng.uniform(-100, 100), 3)
        if t == "str":
            return rng.choice(["a", "b", "ab", "abc", "", "zeta", "B"]) if small else \
                "".join(rng.choice("abcxyz") for _ in range(rng.randint(0, 6)))
        if t == "bool":
            return rng.random() < 0.5
        if t == "int_none":
            return None if rng.random() < 0.3 else rng.randint(0, 5)
        return 0

    def _values(self, rng):
        out = []
        for _ in self.fields:
            r = rng.random()
            if r < 0.4:
                out.append(rng.randint(-5, 100))
            elif r < 0.6:
                out.append(round(rng.uniform(0, 10), 2))
            elif r < 0.8:
                out.append(rng.choice(["m", "kg", "text", ""]))
            elif r < 0.9:
                out.append(None)
            else:
                out.append([1, 2])
        return out

    def gen_op(self, rng):
        if self.twin is not None and rng.random() < 0.4:
            return {"op": "twin", "inner": self.twin.gen_op(rng)}
        return self._gen_op(rng)

    def _gen_op(self, rng):
        c = self.cfg
        if self.kind.startswith("table"):
            n = len(self.model)
            r = rng.random()
            if rng.random() < 0.06:
                # the documented way of printing a table; whatever it returns, the table is the
                # table it was (checked by the per-step comparison with the model)
                return {"op": "convert", "how": rng.choice(["to_dataframe", "to_text", "data",
                                                              "data_edit"])}
            if self.keyed:
                keys = c["keys"]
                present = list(self.model)
                if rng.random() < c["p_fail"] * 0.4:
                    # a row that cannot be a row at all (not iterable): must be refused whole
                    return {"op": rng.choice(["append", "setitem"]), "key": rng.choice(keys),
                            "values": 5, "malformed": True}
                if rng.random() < c["p_fail"] * 0.5:
                    # the row is handed over as a lazy iterable whose source fails part-way
                    # (a reader hitting a bad field): refused whole, earlier record intact
                    return {"op": rng.choice(["append", "setitem"]),
                            "key": rng.choice(present + keys) if present else rng.choice(keys),
                            "values": self._values(rng),
                            "fail_after": rng.randint(0, len(self.fields))}
                if r < 0.3 or n == 0:
                    return {"op": "append", "key": rng.choice(keys), "values": self._values(rng)}
                if r < 0.45:
                    return {"op": "setitem", "key": rng.choice(keys), "values": self._values(rng)}
                if r < 0.6:
                    k = rng.choice(keys) if rng.random() < c["p_fail"] else rng.choice(present)
                    return {"op": "del", "key": k}
                if r < 0.7:
                    k = rng.choice(keys + ["nokey"]) if rng.random() < c["p_fail"] else rng.choice(present)
                    return {"op": "get_key", "key": k}
                if r < 0.8:
                    p = rng.randint(-n - 1, n) if rng.random() < c["p_fail"] else rng.randint(-n, n - 1)
                    return {"op": "get_pos", "pos": p}
                if r < 0.9:
                    k = rng.choice(keys) if rng.random() < c["p_fail"] else rng.choice(present)
                    return {"op": "get_attr", "key": k}
                return {"op": "contains", "key": rng.choice(keys)}
            if rng.random() < c["p_fail"] * 0.4:
                return {"op": "append_row", "values": self._values(rng),
                        "fail_after": rng.randint(0, len(self.fields))}
            if r < 0.45 or n == 0:
                return {"op": "append_row", "values": self._values(rng)}
            if r < 0.65:
                p = rng.randint(-n - 1, n) if rng.random() < c["p_fail"] else rng.randint(-n, n - 1)
                return {"op": "del_pos", "pos": p}
            p = rng.randint(-n - 1, n) if rng.random() < c["p_fail"] else rng.randint(-n, n - 1)
            return {"op": "get_pos", "pos": p}
        # row collector
        if self.cols_known and rng.random() < 0.06:
            return {"op": "convert", "how": rng.choice(["to_dataframe", "to_text", "to_dict",
                                                          "to_dataframe_cols", "deepcopy"])}
        r = rng.random()
        n = len(self.rows)
        row = [self._cell(rng, t) for t in self.types]
        if self.cols_known and len(self.cols) > 1 and rng.random() < c["p_fail"] * 0.6:
            k = rng.randrange(len(self.cols))
            if rng.random() < 0.5:
                return {"op": "append_short", "row": row[:k]}           # too few values
            lacking = {self.cols[i]: row[i] for i in range(len(self.cols)) if i != k}
            return {"op": "append_lacking", "row": [[k_, v_] for k_, v_ in lacking.items()]}
        if self.cols_known and n and rng.random() < c["p_fail"] * 0.5:
            q = rng.random()
            if q < 0.35:
                return {"op": "sort_unknown", "col": rng.choice(["nocol", "", "_columns2"]),
                        "reverse": rng.random() < 0.4}
            if q < 0.6 and "int_none" in self.types:
                # a column holding None among numbers cannot be ordered
                return {"op": "sort_any", "col": self.cols[self.types.index("int_none")],
                        "reverse": rng.random() < 0.4}
            if self.array:
                numeric = [i for i, t in enumerate(self.types)
                           if t in ("int", "float", "default", "uint")]
                if numeric:
                    bad = list(row)
                    bad[rng.choice(numeric)] = rng.choice(["abc", "1,5", "0x"])
                    return {"op": "append_uncastable", "row": bad,
                            "as_dict": rng.random() < 0.4}
        if r < 0.35 or n == 0:
            if not self.cols_known:
                order = list(range(len(self.cols)))
                rng.shuffle(order)
                return {"op": "append_dict", "row": [[self.cols[i], row[i]] for i in order],
                        "extra": None}
            return {"op": "append_list", "row": row}
        if r < 0.6:
            extra = "bogus" if rng.random() < c["p_fail"] else None
            order = list(range(len(self.cols)))
            rng.shuffle(order)
            return {"op": "append_dict", "row": [[self.cols[i], row[i]] for i in order],
                    "extra": extra}
        if r < 0.95:
            sortable = [i for i, t in enumerate(self.types) if t != "int_none"]
            if not sortable:
                return {"op": "append_list", "row": row}
            return {"op": "sort", "col": self.cols[rng.choice(sortable)],
                    "reverse": rng.random() < 0.4}
        return {"op": "noop"}

    # ------------------------------------------------------------------ execution
    def _guard(self, fn, after):
        """Reading the object through its public accessors must not fail."""
        try:
            fn(after)
        except Violation:
            raise
        except Exception as e:
            raise Violation("accessor_failed",
                            {"after": after, "error": [type(e).__name__, repr(e.args)[:200]]},
                            signature=f"C20/accessor_failed/{self.kind}")

    def apply(self, op):
        if op["op"] == "twin":
            if self.twin is None:
                return "noop", None
            self.stats.fault("operation_on_a_second_live_object", True)
            out = self.twin._apply_own(op["inner"])
            # ... and the first object is what it was
            self._guard(self._check_table if self.kind.startswith("table") else self._check_rows,
                        "twin:" + op["inner"]["op"])
            self.nontrivial = True
            return out
        out = self._apply_own(op)
        if self.twin is not None:
            t = self.twin
            t._guard(t._check_table if t.kind.startswith("table") else t._check_rows,
                     "other:" + op["op"])
        return out

    def _apply_own(self, op):
        if self.kind.startswith("table"):
            out = self._apply_table(op)
            self._guard(self._check_table, op["op"])
            self.abstract = f"n{min(len(self.model), 6)}" + ("f" if self.failed_ops else "")
        else:
            out = self._apply_rows(op)
            self._guard(self._check_rows, op["op"])
            self.abstract = f"n{min(len(self.rows), 6)}" + ("f" if self.failed_ops else "")
        if self.failed_ops or op["op"] in ("sort", "del", "del_pos", "setitem"):
            self.nontrivial = True
        return out

    def _record(self, values):
        return dict(zip(self.fields, values))

    def _expect(self, what, fn, want_fail, want_value=None, cmp=None):
        try:
            got = fn()
        except Exception as e:
            if not want_fail:
                raise Violation("operation_failed_but_model_succeeds",
                                {"op": what, "error": [type(e).__name__, repr(e.args)[:200]]},
                                signature=f"C20/table/{what}/unexpected_error")
            self.failed_ops += 1
            self.stats.fault("failing_" + what, True)
            return "raised:" + type(e).__name__, None
        if want_fail:
            raise Violation("operation_succeeded_but_model_fails",
                            {"op": what, "result": repr(got)[:200]},
                            signature=f"C20/table/{what}/missing_error")
        if cmp is not None and not cmp(got):
            raise Violation("wrong_result", {"op": what, "got": repr(got)[:300],
                                             "want": repr(want_value)[:300]},
                            signature=f"C20/table/{what}/wrong_result")
        return "ok", None

    def _rec_ok(self, want):
        def cmp(rec):
            return self._same_record(rec, want)
        return cmp

    def _same_record(self, rec, want):
        try:
            d = rec.data()
            if list(d.keys()) != list(want.keys()):
                return False
            for k, v in want.items():
                if not eqv(d[k], v) or not eqv(rec[k], v) or not eqv(getattr(rec, k), v):
                    return False
            return list(rec.keys()) == list(want.keys())
        except Exception:
            return False

    def _apply_table(self, op):
        k = op["op"]
        t, m = self.t, self.model
        if k == "convert":
            try:
                if op["how"] == "to_dataframe":
                    df = t.to_dataframe()
                    got = len(df)
                elif op["how"] == "to_text":
                    got = len(t.to_text().splitlines()) - 1
                    t.to_text()                       # twice: printing is repeatable
                elif op["how"] == "data_edit":
                    # the caller scribbles over the export it was handed: the table is not its export
                    d = t.data()
                    got = len(d)
                    for rec in (d.values() if isinstance(d, dict) else d):
                        for f in list(rec):
                            rec[f] = "scribble"
                        rec.clear()
                    if isinstance(d, dict):
                        d.clear()
                elif op["how"] == "deepcopy":
                    # an independent copy is filled further: the original is not
                    import copy as _copy
                    c = _copy.deepcopy(t)
                    got = len(c)
                    row = [0] * len(self.fields)
                    if self.keyed:
                        c.append("copykey", row)
                    else:
                        c.append(row)
                else:
                    got = len(t.data())
            except Exception as e:
                raise Violation("accessor_failed",
                                {"after": op["how"], "error": [type(e).__name__, repr(e.args)[:200]]},
                                signature=f"C20/accessor_failed/{self.kind}")
            if got != len(m) and not (op["how"] == "to_text" and len(m) == 0):
                raise Violation("table_differs_from_model",
                                {"after": op["how"], "accessor": op["how"], "got": got,
                                 "want": len(m)}, signature=f"C20/table/{op['how']}")
            return "converted", op["how"]
        if self.keyed:
            if k in ("append", "setitem") and op.get("malformed"):
                def f():
                    if k == "append":
                        t.append(op["key"], op["values"])
                    else:
                        t[op["key"]] = op["values"]
                return self._expect(k + "_malformed", f, True)
            if k in ("append", "setitem") and "fail_after" in op:
                vals = op["values"][:len(self.fields)]
                if len(vals) < len(self.fields):
                    return "skip", None
                fails = op["fail_after"] < len(self.fields)
                lazy = _lazy_row(vals, op["fail_after"])

                def f():
                    if k == "append":
                        t.append(op["key"], lazy)
                    else:
                        t[op["key"]] = lazy
                r = self._expect(k + "_lazy", f, fails)
                if not fails:
                    m[op["key"]] = self._record(vals)
                return r
            if k in ("append", "setitem"):
                vals = op["values"][:len(self.fields)]
                if len(vals) < len(self.fields):
                    return "skip", None
                if k == "append":
                    r = self._expect(k, lambda: t.append(op["key"], vals), False)
                else:
                    def f():
                        t[op["key"]] = vals
                    r = self._expect(k, f, False)
                m[op["key"]] = self._record(vals)     # dict assignment keeps the position
                return r
            if k == "del":
                missing = op["key"] not in m

                def f():
                    del t[op["key"]]
                r = self._expect(k, f, missing)
                if not missing:
                    del m[op["key"]]
                return r
            if k == "get_key":
                missing = op["key"] not in m
                want = m.get(op["key"])
                return self._expect(k, lambda: t[op["key"]], missing, want,
                                    None if missing else self._rec_ok(want))
            if k == "get_attr":
                missing = op["key"] not in m
                want = m.get(op["key"])
                return self._expect(k, lambda: getattr(t, op["key"]), missing, want,
                                    None if missing else self._rec_ok(want))
            if k == "get_pos":
                n = len(m)
                p = op["pos"]
                missing = not (-n <= p < n)
                want = None if missing else list(m.values())[p]
                return self._expect(k, lambda: t[p], missing, want,
                                    None if missing else self._rec_ok(want))
            if k == "contains":
                want = op["key"] in m
                return self._expect(k, lambda: op["key"] in t, False, want,
                                    lambda got: bool(got) == want)
            return "skip", None
        # list mode
        if k == "append_row" and "fail_after" in op:
            vals = op["values"][:len(self.fields)]
            if len(vals) < len(self.fields):
                return "skip", None
            fails = op["fail_after"] < len(self.fields)
            lazy = _lazy_row(vals, op["fail_after"])
            r = self._expect(k + "_lazy", lambda: t.append(lazy), fails)
            if not fails:
                m.append(self._record(vals))
            return r
        if k == "append_row":
            vals = op["values"][:len(self.fields)]
            if len(vals) < len(self.fields):
                return "skip", None
            r = self._expect(k, lambda: t.append(vals), False)
            m.append(self._record(vals))
            return r
        if k == "del_pos":
            n = len(m)
            p = op["pos"]
            missing = not (-n <= p < n)

            def f():
                del t[p]
            r = self._expect(k, f, missing)
            if not missing:
                del m[p]
            return r
        if k == "get_pos":
            n = len(m)
            p = op["pos"]
            missing = not (-n <= p < n)
            want = None if missing else m[p]
            return self._expect(k, lambda: t[p], missing, want,
                                None if missing else self._rec_ok(want))
        return "skip", None

    def _check_table(self, after):
        t, m = self.t, self.model

        def bad(what, got, want):
            raise Violation("table_differs_from_model",
                            {"after": after, "accessor": what, "got": repr(got)[:400],
                             "want": repr(want)[:400]},
                            signature=f"C20/table/{'keyed' if self.keyed else 'list'}/{what}")
        if len(t) != len(m):
            bad("len", len(t), len(m))
        # iteration: a plain loop, a loop restarted, and two overlapping loops
        want_recs = list(m.values()) if self.keyed else list(m)
        first = list(t)
        again = [rec for rec in t]
        if len(first) != len(want_recs) or len(again) != len(want_recs) or any(
                not self._same_record(r, w) for r, w in zip(first, want_recs)):
            bad("iteration", first, want_recs)
        if 0 < len(want_recs) <= 6:
            pairs = sum(1 for a in t for b in t)
            zipped = list(zip(t, t))
            if pairs != len(want_recs) ** 2:
                bad("nested_iteration", pairs, len(want_recs) ** 2)
            if len(zipped) != len(want_recs) or any(
                    not self._same_record(a, w) or not self._same_record(b, w)
                    for (a, b), w in zip(zipped, want_recs)):
                bad("zip_iteration", len(zipped), len(want_recs))
        if t.shape() != (len(m), len(self.fields)):
            bad("shape", t.shape(), (len(m), len(self.fields)))
        if self.keyed:
            if list(t.keys()) != list(m.keys()):
                bad("keys", list(t.keys()), list(m.keys()))
            items = list(t.items())
            if [k for k, _ in items] != list(m.keys()):
                bad("items_keys", [k for k, _ in items], list(m.keys()))
            for (k, rec), want in zip(items, m.values()):
                if not self._same_record(rec, want):
                    bad("items_record", (k, rec), want)
            d = t.data()
            if list(d.keys()) != list(m.keys()) or any(
                    not all(eqv(d[k][f], m[k][f]) for f in self.fields) for k in m):
                bad("data", d, m)
            for i, k in enumerate(m):
                if not self._same_record(t[k], m[k]) or not self._same_record(t[i], m[k]) \
                        or not self._same_record(getattr(t, k), m[k]) or k not in t:
                    bad("lookup", k, m[k])
        else:
            items = list(t.items())
            if [i for i, _ in items] != list(range(len(m))):
                bad("items_index", [i for i, _ in items], list(range(len(m))))
            for (i, rec), want in zip(items, m):
                if not self._same_record(rec, want) or not self._same_record(t[i], want):
                    bad("items_record", (i, rec), want)
            d = t.data()
            if len(d) != len(m) or any(
                    not all(eqv(x[f], y[f]) for f in self.fields) for x, y in zip(d, m)):
                bad("data", d, m)

    # -- row collector -------------------------------------------------------------------
    def _cast(self, v, t):
        """What the model expects a stored cell to equal, per column type in array mode."""
        if not self.array:
            return v
        if t == "str":
            return str(v)
        if t in ("float", "default"):
            return float(v)
        if t == "bool":
            return bool(v)
        if t in ("int", "uint"):
            return int(v)
        return v

    def _apply_rows(self, op):
        k = op["op"]
        rc = self.rc
        if k == "convert":
            if not self.cols_known:
                return "skip", None
            try:
                if op["how"] == "to_dataframe":
                    got = len(rc.to_dataframe())
                elif op["how"] == "to_dataframe_cols":
                    got = len(rc.to_dataframe(list(self.cols[:1])))
                elif op["how"] == "to_text":
                    rc.to_text()
                    got = len(self.rows)
                elif op["how"] == "deepcopy":
                    import copy as _copy
                    c = _copy.deepcopy(rc)
                    got = c.size()
                    if self.rows:
                        c.append([getattr(c, col)[0] for col in self.cols])
                else:
                    d = rc.to_dict()
                    got = len(d[self.cols[0]])
            except Exception as e:
                raise Violation("accessor_failed",
                                {"after": op["how"], "error": [type(e).__name__, repr(e.args)[:200]]},
                                signature=f"C20/accessor_failed/{self.kind}")
            if got != len(self.rows):
                raise Violation("rows_differ_from_model",
                                {"after": op["how"], "got": got, "want": len(self.rows)},
                                signature=f"C20/rows/{op['how']}")
            return "converted", op["how"]
        if k == "append_list":
            row = list(op["row"])[:len(self.cols)]
            if len(row) < len(self.cols) or not self.cols_known:
                return "skip", None
            try:
                rc.append(list(row))
            except Exception as e:
                raise Violation("append_failed", {"row": row, "error": repr(e)[:200]},
                                signature="C20/rows/append_list/unexpected_error")
            self.rows.append([self._cast(v, t) for v, t in zip(row, self.types)])
            return "ok", None
        if k == "append_dict":
            # ordered pairs (older traces: a JSON object, i.e. keys in sorted order)
            op = dict(op, row=dict(op["row"]))
            row = dict(op["row"])
            if set(row) != set(self.cols):
                return "skip", None
            if op.get("extra"):
                row[op["extra"]] = 1
            first = not self.cols_known
            want_fail = bool(op.get("extra")) and self.cols_known
            if first and op.get("extra"):
                return "skip", None
            try:
                rc.append(dict(row))
            except Exception as e:
                if not want_fail:
                    raise Violation("append_failed", {"row": row, "error": repr(e)[:200]},
                                    signature="C20/rows/append_dict/unexpected_error")
                self.failed_ops += 1
                self.stats.fault("failing_append_dict", True)
                return "raised:" + type(e).__name__, None
            if want_fail:
                raise Violation("append_with_unknown_column_accepted", {"row": row},
                                signature="C20/rows/append_dict/missing_error")
            if first:
                self.cols = list(op["row"].keys())
                # types follow the new column order
                self.types = [self.types[self.cfg["cols"].index(c)] for c in self.cols]
                self.cols_known = True
            self.rows.append([self._cast(op["row"][c], t) for c, t in zip(self.cols, self.types)])
            return "ok", None
        if k in ("append_short", "append_lacking"):
            # a malformed row must be refused and must not leave a trace: the next good row
            # has to line up with the earlier ones
            if not self.cols_known:
                return "skip", None
            row = op["row"]
            if k == "append_lacking":
                row = dict(row)
            if (k == "append_short" and len(row) >= len(self.cols)) or \
                    (k == "append_lacking" and set(self.cols) <= set(row)):
                return "skip", None
            try:
                rc.append(list(row) if k == "append_short" else dict(row))
            except Exception as e:
                self.failed_ops += 1
                self.stats.fault("failing_" + k, True)
                return "raised:" + type(e).__name__, None
            raise Violation("malformed_row_accepted", {"op": k, "row": row},
                            signature=f"C20/rows/{k}/missing_error")
        if k == "sort_unknown":
            if not self.cols_known or op["col"] in self.cols:
                return "skip", None
            try:
                rc.sort(op["col"], reverse=bool(op["reverse"]))
            except Exception as e:
                # refused: the rows must be as before (compared with the model after this step)
                self.failed_ops += 1
                self.stats.fault("failing_sort_unknown_column", True)
                return "raised:" + type(e).__name__, None
            raise Violation("sort_by_unknown_column_accepted", {"col": op["col"]},
                            signature="C20/rows/sort_unknown/missing_error")
        if k == "sort_any":
            if not self.cols_known or op["col"] not in self.cols:
                return "skip", None
            before = [list(r) for r in self.rows]
            try:
                rc.sort(op["col"], reverse=bool(op["reverse"]))
            except Exception as e:
                self.failed_ops += 1
                self.stats.fault("failing_sort_unorderable", True)
                return "raised:" + type(e).__name__, None
            got = self._read_rows("sort_any")
            if not self._same_multiset(got, before):
                raise Violation("sort_changed_the_multiset_of_rows",
                                {"col": op["col"], "before": repr(before)[:400],
                                 "after": repr(got)[:400]},
                                signature="C20/rows/sort/multiset")
            ci = self.cols.index(op["col"])
            keys = [r[ci] for r in got]
            if all(x is not None for x in keys):
                for x, y in zip(keys, keys[1:]):
                    if not ((x >= y) if op["reverse"] else (x <= y)):
                        raise Violation("sort_column_not_monotone",
                                        {"col": op["col"], "reverse": op["reverse"],
                                         "column": repr(keys)[:300]},
                                        signature=f"C20/rows/sort/order/reverse={bool(op['reverse'])}")
            self.rows = got
            return "ok", len(got)
        if k == "append_uncastable":
            if not self.cols_known or not self.array or len(op["row"]) != len(self.cols):
                return "skip", None
            row = op["row"]
            try:
                rc.append(dict(zip(self.cols, row)) if op.get("as_dict") else list(row))
            except Exception as e:
                # refused: no column may have taken its cell of the refused row
                self.failed_ops += 1
                self.stats.fault("failing_append_uncastable", True)
                return "raised:" + type(e).__name__, None
            # accepted: then the row must have been stored in every column
            got = self._read_rows("append_uncastable")
            if len(got) != len(self.rows) + 1:
                raise Violation("rows_differ_from_model",
                                {"after": k, "got": repr(got)[:400], "want_len": len(self.rows) + 1},
                                signature="C20/rows/array/append_uncastable")
            self.rows = got
            return "stored", None
        if k == "sort":
            if op["col"] not in self.cols or not self.cols_known:
                return "skip", None
            before = [list(r) for r in self.rows]
            try:
                rc.sort(op["col"], reverse=bool(op["reverse"]))
            except Exception as e:
                raise Violation("sort_failed", {"col": op["col"], "error": repr(e)[:200]},
                                signature="C20/rows/sort/unexpected_error")
            got = self._read_rows("sort")
            ci = self.cols.index(op["col"])
            keys = [r[ci] for r in got]
            for x, y in zip(keys, keys[1:]):
                ok = (x >= y) if op["reverse"] else (x <= y)
                if not ok:
                    raise Violation("sort_column_not_monotone",
                                    {"col": op["col"], "reverse": op["reverse"],
                                     "column": repr(keys)[:300]},
                                    signature=f"C20/rows/sort/order/reverse={bool(op['reverse'])}")
            if not self._same_multiset(got, before):
                raise Violation("sort_changed_the_multiset_of_rows",
                                {"col": op["col"], "before": repr(before)[:400],
                                 "after": repr(got)[:400]},
                                signature="C20/rows/sort/multiset")
            self.rows = got
            return "ok", len(got)
        return "skip", None

    @staticmethod
    def _key(row):
        return tuple((type(v).__name__ if v is None else "", repr(v) if v is None else
                      (float(v) if isinstance(v, (int, float, np.integer, np.floating, bool,
                                                  np.bool_)) and not isinstance(v, str) else str(v)))
                     for v in row)

    def _same_multiset(self, a, b):
        if len(a) != len(b):
            return False
        rest = [list(r) for r in b]
        for r in a:
            for i, s in enumerate(rest):
                if len(r) == len(s) and all(eqv(x, y) for x, y in zip(r, s)):
                    del rest[i]
                    break
            else:
                return False
        return not rest

    def _read_rows(self, after):
        rc = self.rc
        cols = []
        for c in self.cols:
            v = getattr(rc, c)
            v2 = rc[c]
            d = rc.to_dict()[c]
            if len(v) != len(v2) or len(v) != len(d) or any(
                    not eqv(x, y) or not eqv(x, z) for x, y, z in zip(v, v2, d)):
                raise Violation("accessors_disagree", {"after": after, "column": c},
                                signature="C20/rows/accessors")
            cols.append([x.item() if isinstance(x, np.generic) else x for x in v])
        if cols and len({len(c) for c in cols}) != 1:
            raise Violation("columns_of_different_length",
                            {"after": after, "lengths": [len(c) for c in cols]},
                            signature="C20/rows/ragged")
        n = len(cols[0]) if cols else 0
        return [[c[i] for c in cols] for i in range(n)]

    def _check_rows(self, after):
        if not self.cols_known:
            return
        got = self._read_rows(after)
        want = self.rows
        ok = len(got) == len(want) and all(
            len(g) == len(w) and all(eqv(x, y) for x, y in zip(g, w)) for g, w in zip(got, want))
        if not ok:
            raise Violation("rows_differ_from_model",
                            {"after": after, "got": repr(got)[:500], "want": repr(want)[:500],
                             "mode": "array" if self.array else "list", "types": self.types},
                            signature=f"C20/rows/{'array' if self.array else 'list'}/{after}")
        rc = self.rc
        if rc.size() != len(want) or len(rc) != len(want) or \
                rc.shape() != (len(self.cols), len(want)):
            raise Violation("size_differs_from_model",
                            {"after": after, "size": rc.size(), "shape": rc.shape(),
                             "want": len(want)}, signature="C20/rows/size")
        if list(rc.to_dict().keys()) != list(self.cols):
            raise Violation("column_order", {"got": list(rc.to_dict().keys()), "want": self.cols},
                            signature="C20/rows/columns")

    # ------------------------------------------------------------------ shrinking / docs
    @classmethod
    def simplify(cls, op):
        if "values" in op and isinstance(op["values"], list):
            v = op["values"]
            simple = [0] * len(v)
            if v != simple:
                yield dict(op, values=simple)
        if op.get("op") == "sort" and op.get("reverse"):
            yield dict(op, reverse=False)

    @classmethod
    def rule(cls, prop):
        return ("runs: seeded operation histories on one real ParameterTable (keyed / list mode) or "
                "RowCollector (list / array mode with typed columns) against an ordered-dict / "
                "list-of-rows model, every public accessor compared after every step; failing "
                "operations (missing key or position, unknown column) must leave the object "
                "unchanged; a run is non-trivial when it contains a delete, overwrite, sort or a "
                "failing operation; distinct = distinct sequences of (op kind, abstract pre-state "
                "= size bucket + failure-seen flag, outcome class). The stateless grid and "
                "combination clauses are enumerated exhaustively over small ranges (pure_clauses)")

    @classmethod
    def components(cls, prop):
        return {"real": ["scinumtools.ParameterTable", "ParameterSettings", "scinumtools.RowCollector",
                         "scinumtools.DataPlotGrid", "scinumtools.DataCombination", "NumPy argsort"],
                "stub": []}


class InjectedRowFault(Exception):
    pass


def _lazy_row(values, fail_after):
    """A generator handing out `fail_after` cells and then failing, like a reader that meets a
    bad field half-way through a record."""
    def gen():
        for i, v in enumerate(values):
            if i >= fail_after:
                raise InjectedRowFault("source of the row failed after %d cells" % fail_after)
            yield v
    return gen()


# ------------------------------------------------------------------------------ pure clauses

def pure_clauses(max_n=40, max_cols=8):
    """Exhaustive small-range enumeration (not simulation).  Returns (cases, violation|None)."""
    cases = 0
    for n in range(0, max_n + 1):
        for ncols in range(1, max_cols + 1):
            for as_dict in (False, True):
                data = {f"k{i}": i * 10 for i in range(n)} if as_dict else [i * 10 for i in range(n)]
                g = DataPlotGrid(data, ncols=ncols)
                nrows = int(math.ceil(n / ncols))
                if g.nrows != nrows or g.ncols != ncols or g.ndata != n:
                    return cases, {"what": "grid shape", "n": n, "ncols": ncols,
                                   "got": [g.nrows, g.ncols, g.ndata]}
                for transpose in (False, True):
                    cases += 1
                    items = list(g.items(transpose=transpose))
                    missing = list(g.items(missing=True, transpose=transpose))
                    cells = [(it[1], it[2]) for it in items] + [(m[1], m[2]) for m in missing]
                    allc = {(r, c) for r in range(nrows) for c in range(ncols)}
                    prob = None
                    if len(items) != n:
                        prob = "number of data items"
                    elif len(set(cells)) != len(cells):
                        prob = "cells not distinct"
                    elif set(cells) != allc:
                        prob = "cells do not cover the grid exactly"
                    elif [it[0] for it in items] != list(range(n)):
                        prob = "item indices"
                    elif as_dict and [(it[3], it[4]) for it in items] != list(data.items()):
                        prob = "dict payload"
                    elif not as_dict and [it[3] for it in items] != data:
                        prob = "list payload"
                    elif any(isinstance(x, bool) or not isinstance(x, int) for cell in cells for x in cell):
                        prob = "cell coordinates are not ints"
                    if not prob:
                        # the grid object is long-lived (one per figure): asking again, asking
                        # for the empty cells first, and two passes at once give the same cells
                        again_m = list(g.items(missing=True, transpose=transpose))
                        again_i = list(g.items(transpose=transpose))
                        g2 = DataPlotGrid(data, ncols=ncols)
                        first_m = list(g2.items(missing=True, transpose=transpose))
                        then_i = list(g2.items(transpose=transpose))
                        pairs = list(zip(g2.items(transpose=transpose), g2.items(transpose=transpose)))
                        if again_m != missing or again_i != items:
                            prob = "a repeated query on the same grid differs from the first"
                        elif first_m != missing or then_i != items:
                            prob = "empty cells asked for before the data cells"
                        elif [a for a, _ in pairs] != items or [b for _, b in pairs] != items:
                            prob = "two passes over the same grid at once"
                        else:
                            # two enumerations of *different* kinds alive at once: the other
                            # orientation, the empty cells - zipped, and one nested in the other
                            other = list(DataPlotGrid(data, ncols=ncols).items(transpose=not transpose))
                            mixed = list(zip(g2.items(transpose=transpose),
                                             g2.items(transpose=not transpose)))
                            outer = []
                            inner_ok = True
                            for it in g2.items(transpose=transpose):
                                outer.append(it)
                                if len(outer) <= 3:
                                    inner_ok = inner_ok and \
                                        list(g2.items(transpose=not transpose)) == other and \
                                        list(g2.items(missing=True, transpose=transpose)) == missing
                            if [a for a, _ in mixed] != items[:len(mixed)] or \
                                    [b for _, b in mixed] != other[:len(mixed)] or len(mixed) != n:
                                prob = "both orientations enumerated at once"
                            elif outer != items or not inner_ok:
                                prob = "an enumeration nested inside another one of the same grid"
                    if prob:
                        return cases, {"what": "grid: " + prob, "n": n, "ncols": ncols,
                                       "dict": as_dict, "transpose": transpose,
                                       "cells": cells[:50]}
    # combinations: all lists of <= 3 item lists of length <= 3 (distinct payloads), plus 4x(<=2)
    alphabet = ["a", "b", "c", "d"]
    shapes = [s for k in range(0, 4) for s in itertools.product(range(0, 4), repeat=k)]
    shapes += list(itertools.product(range(1, 3), repeat=4))
    for shape in shapes:
        cases += 1
        items = [[f"{alphabet[i]}{j}" for j in range(m)] for i, m in enumerate(shape)]
        dc = DataCombination(items)
        keys = list(dc.keys())
        vals = list(dc.values())
        both = list(dc.items())
        wantk = list(itertools.product(*[range(m) for m in shape]))
        wantv = [tuple(items[i][k[i]] for i in range(len(shape))) for k in wantk]
        if keys != wantk or vals != wantv or both != list(zip(wantk, wantv)):
            return cases, {"what": "combination", "shape": list(shape), "keys": keys[:20],
                           "values": vals[:20], "items": both[:20]}
        # asked again, in another order, and two passes at once
        both2, vals2, keys2 = list(dc.items()), list(dc.values()), list(dc.keys())
        pairs = list(zip(dc.items(), dc.items()))
        dc2 = DataCombination(items)
        both3, keys3 = list(dc2.items()), list(dc2.keys())
        # all pairs of combinations: an enumeration nested inside another one of the same object
        outer, inner_ok = [], True
        for a in dc.items():
            outer.append(a)
            if len(outer) <= 4:
                inner_ok = inner_ok and list(dc.items()) == both and list(dc.keys()) == wantk \
                    and list(dc.values()) == wantv
        if outer != both or not inner_ok:
            return cases, {"what": "combination: an enumeration nested inside another one of the "
                                   "same object", "shape": list(shape), "outer": outer[:20]}
        if keys2 != wantk or vals2 != wantv or both2 != both or both3 != both or keys3 != wantk \
                or [a for a, _ in pairs] != both or [b for _, b in pairs] != both:
            return cases, {"what": "combination: a repeated or reordered query differs from the "
                                   "first", "shape": list(shape), "keys": keys2[:20],
                           "values": vals2[:20], "items": both2[:20]}
    # payloads that repeat or compare equal (0 / False, 1 / 1.0): positions, not values, make
    # the index tuples
    for items in ([["a", "b", "a"]], [[0.1, 0.2, 0.1], ["x", "y"]], [[0, False, 1, 1.0]],
                  [["p", "p"], ["p", "p"]], [[None, None, 3]]):
        cases += 1
        dc = DataCombination(items)
        shape = [len(x) for x in items]
        wantk = list(itertools.product(*[range(m) for m in shape]))
        wantv = [tuple(items[i][k[i]] for i in range(len(shape))) for k in wantk]
        keys, vals, both = list(dc.keys()), list(dc.values()), list(dc.items())
        if keys != wantk or [repr(v) for v in vals] != [repr(v) for v in wantv] or \
                [k for k, _ in both] != wantk or \
                [repr(v) for _, v in both] != [repr(v) for v in wantv]:
            return cases, {"what": "combination with repeated payloads", "items": repr(items),
                           "keys": keys[:20], "items_keys": [k for k, _ in both][:20]}
    # item "lists" that are other sequences: tuples, ranges, arrays, an empty tuple
    for items in ([("a", "b"), ["c", "d", "e"]], [range(3), ("x",)], [np.array([1.5, 2.5]), ["p", "q"]],
                  [(), ["c"]], (("a", "b"), ("c",)), [("a",), ("b",), ("c", "d")]):
        cases += 1
        dc = DataCombination(items)
        shape = [len(x) for x in items]
        wantk = list(itertools.product(*[range(m) for m in shape]))
        wantv = [tuple(items[i][k[i]] for i in range(len(shape))) for k in wantk]
        try:
            keys, vals, both = list(dc.keys()), list(dc.values()), list(dc.items())
        except Exception as e:
            return cases, {"what": "combination of non-list sequences", "items": repr(items),
                           "error": [type(e).__name__, repr(e.args)[:200]]}
        if [tuple(k) for k in keys] != wantk or [repr(tuple(v)) for v in vals] != [repr(v) for v in wantv] \
                or [tuple(k) for k, _ in both] != wantk:
            return cases, {"what": "combination of non-list sequences", "items": repr(items),
                           "keys": [tuple(k) for k in keys][:20], "want_keys": wantk[:20]}
    # the caller keeps its lists and changes them after construction: whatever view the helper
    # takes (live or frozen), keys(), values() and items() must describe the same product
    for shape in [(2, 3), (1, 2, 2), (3,), (2, 2)]:
        for action in ("grow_inner", "shrink_inner", "add_list"):
            cases += 1
            items = [[f"{alphabet[i]}{j}" for j in range(m)] for i, m in enumerate(shape)]
            dc = DataCombination(items)
            list(dc.items())
            if action == "grow_inner":
                items[-1].append("zz")
            elif action == "shrink_inner":
                items[0].pop()
            else:
                items.append(["p", "q"])
            try:
                keys, vals, both = list(dc.keys()), list(dc.values()), list(dc.items())
            except Exception as e:
                return cases, {"what": "combination after the caller changed its lists",
                               "shape": list(shape), "action": action,
                               "error": [type(e).__name__, repr(e.args)[:200]]}
            if both != list(zip(keys, vals)) or len(keys) != len(vals):
                return cases, {"what": "combination views disagree after the caller changed "
                                       "its lists", "shape": list(shape), "action": action,
                               "keys": len(keys), "values": len(vals), "items": len(both)}
    return cases, None
