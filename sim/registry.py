"""Property -> machine, level and budgets."""

# runs are fixed per tier (so a given VERIF_SEED explores exactly the same histories
# everywhere); `cap` only stops submission of new chunks on a slow host.
PROPS = {
    "C02": dict(machine="solver", level="fault_enumeration",
                quick=dict(runs=80000, cap=80, selftest=200),
                thorough=dict(runs=800000, cap=900, selftest=2000)),
    "C09": dict(machine="c09", level="fault_enumeration",
                quick=dict(runs=10000, cap=60, selftest=150),
                thorough=dict(runs=200000, cap=900, selftest=1500)),
    "C07": dict(machine="quantity", level="exploration",
                quick=dict(runs=24000, cap=60, selftest=150),
                thorough=dict(runs=400000, cap=900, selftest=1500)),
    "C04": dict(machine="quantity", level="exploration",
                quick=dict(runs=32000, cap=60, selftest=150),
                thorough=dict(runs=400000, cap=900, selftest=1500)),
    "C14": dict(machine="dipstore", level="exploration",
                quick=dict(runs=8000, cap=80, selftest=100),
                thorough=dict(runs=150000, cap=1200, selftest=1000)),
    "C16": dict(machine="dipstore", level="exploration",
                quick=dict(runs=8000, cap=80, selftest=100),
                thorough=dict(runs=150000, cap=1200, selftest=1000)),
    "C17": dict(machine="dipstore", level="exploration",
                quick=dict(runs=8000, cap=80, selftest=100),
                thorough=dict(runs=150000, cap=1200, selftest=1000)),
    "C20": dict(machine="helpers", level="exploration", pure="pure_clauses",
                quick=dict(runs=80000, cap=90, selftest=200),
                thorough=dict(runs=600000, cap=900, selftest=2000)),
}


def machine(name):
    if name == "solver":
        from .m_solver import SolverMachine
        return SolverMachine
    if name == "unitscope":
        from .m_unitscope import UnitScopeMachine
        return UnitScopeMachine
    if name == "c09":
        from .m_c09 import C09Machine
        return C09Machine
    if name == "quantity":
        from .m_quantity import QuantityMachine
        return QuantityMachine
    if name == "dipstore":
        from .m_dipstore import DipStoreMachine
        return DipStoreMachine
    if name == "helpers":
        from .m_helpers import HelpersMachine
        return HelpersMachine
    raise KeyError(name)


def pure(prop):
    """Stateless clauses enumerated exhaustively next to the simulation (C20 only)."""
    if PROPS[prop].get("pure") == "pure_clauses":
        from .m_helpers import pure_clauses
        return pure_clauses
    return None
