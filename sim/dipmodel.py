"""Reference model of the DIP environment chain (see DESIGN.md, Appendix A).

The model is an ordered map  path -> node record  plus custom units and named
sources, with one transition per *structured* statement.  The DIP text handed
to the library and the model transition are both derived from the same
structured statement at execution time, so the shrinker can delete earlier
statements and the expectation of the remaining ones is recomputed.

Every transition is taken from the statements of C14/C16/C17 and the user
documentation (docs/source/dip/syntax), not from the implementation.
"""
import copy
import json
import math
import re
from fractions import Fraction as F

from . import unitmodel as UM


class Abort(Exception):
    """The model says: this text must make parse() fail.  `why` names the clause."""

    def __init__(self, why, prop, detail=None):
        super().__init__(why)
        self.why = why
        self.prop = prop          # which property's clause demands the failure
        self.detail = detail


class Unspecified(Exception):
    """The statements do not say what this means; the round is skipped."""


# ------------------------------------------------------------------------------ units

# unit text -> terms; everything the generator uses
UNIT_TERMS = {
    "m": [["", "m", 1, 1]], "cm": [["c", "m", 1, 1]], "km": [["k", "m", 1, 1]],
    "mm": [["m", "m", 1, 1]], "dam": [["da", "m", 1, 1]], "in": [["", "in", 1, 1]],
    "s": [["", "s", 1, 1]], "ms": [["m", "s", 1, 1]], "min": [["", "min", 1, 1]],
    "h": [["", "h", 1, 1]],
    "g": [["", "g", 1, 1]], "kg": [["k", "g", 1, 1]], "mg": [["m", "g", 1, 1]],
    "J": [["", "J", 1, 1]], "erg": [["", "erg", 1, 1]], "kJ": [["k", "J", 1, 1]],
    "eV": [["", "eV", 1, 1]],
    "m/s": [["", "m", 1, 1], ["", "s", -1, 1]], "km/s": [["k", "m", 1, 1], ["", "s", -1, 1]],
    "km/h": [["k", "m", 1, 1], ["", "h", -1, 1]],
    "m2": [["", "m", 2, 1]], "cm2": [["c", "m", 2, 1]],
    "K": [["", "K", 1, 1]], "mol": [["", "mol", 1, 1]],
    "Cel": [["", "Cel", 1, 1]], "degF": [["", "degF", 1, 1]],
}
# temperatures convert with an offset; the pairwise formulas (the zero of one scale is not
# the zero of the other, so "0" is a value like any other)
TEMP = ("K", "Cel", "degF")
_TEMP = {
    ("K", "Cel"): lambda x: x - 273.15, ("K", "degF"): lambda x: (x - 273.15) * 9 / 5 + 32,
    ("Cel", "K"): lambda x: x + 273.15, ("Cel", "degF"): lambda x: (x * 9 / 5) + 32,
    ("degF", "K"): lambda x: ((x - 32) * 5 / 9) + 273.15, ("degF", "Cel"): lambda x: (x - 32) * 5 / 9,
}


def temp_convert(x, u1, u2):
    return x if u1 == u2 else _TEMP[(u1, u2)](x)

FAMILY = {
    "length": ["m", "cm", "km", "mm", "dam", "in"],
    "time": ["s", "ms", "min", "h"],
    "mass": ["g", "kg", "mg"],
    "energy": ["J", "erg", "kJ", "eV"],
    "velocity": ["m/s", "km/s", "km/h"],
    "area": ["m2", "cm2"],
    "temperature": ["K", "Cel", "degF"],
}
# exact power-of-ten style factors for integer nodes
INT_SAFE = {"length": ["m", "cm", "km", "mm"], "time": ["s", "ms"], "mass": ["g", "kg", "mg"]}


class Units:
    """Custom units of one model environment ('[name]' -> (factor, dims))."""

    def __init__(self):
        self.custom = {}

    def copy(self):
        u = Units()
        u.custom = dict(self.custom)
        return u

    def known(self, text):
        return text in UNIT_TERMS or text in self.custom

    def factor(self, text):
        if text in self.custom:
            return self.custom[text][0]
        return UM.factor(UNIT_TERMS[text])

    def dims(self, text):
        if text in self.custom:
            return self.custom[text][1]
        return UM.dims(UNIT_TERMS[text])

    def define(self, name, value, unit):
        key = f"[{name}]"
        if key in self.custom:
            raise Abort("custom unit defined twice", "C09", key)
        if unit is None:
            self.custom[key] = (float(value), UM.dims([]))
        else:
            self.custom[key] = (float(value) * self.factor(unit), self.dims(unit))


# ------------------------------------------------------------------------------ nodes

FAMILY_OF_TYPE = {"bool": "bool", "int": "int", "float": "float", "str": "str"}


def new_node(path, typ, bits="", unsigned=False, unit=None, dims=None):
    return {"path": path, "type": typ, "bits": bits, "unsigned": unsigned, "unit": unit,
            "value": None, "has_value": False, "declared": False, "constant": False,
            "options": [], "condition": None, "format": None, "dims": dims,
            "modified": False}


def shape_of(v):
    if isinstance(v, list):
        if not v:
            return (0,)
        return (len(v),) + shape_of(v[0])
    return ()


def map_leaves(v, fn):
    if isinstance(v, list):
        return [map_leaves(x, fn) for x in v]
    return fn(v)


def cast(typ, lit):
    """Literal of the statement -> value of the node type (None stays None)."""
    if lit is None:
        return None

    def one(x):
        if typ == "bool":
            if not isinstance(x, bool):
                raise Abort("value is not a boolean", "C14", x)
            return x
        if typ == "int":
            if isinstance(x, bool) or not isinstance(x, int):
                raise Unspecified("non-integer literal for an int node")
            return x
        if typ == "float":
            if isinstance(x, bool) or not isinstance(x, (int, float)):
                raise Unspecified("non-numeric literal for a float node")
            return float(x)
        if isinstance(x, str):
            return x
        raise Unspecified("non-string literal for a str node")
    return map_leaves(lit, one)


def check_dims(node, value):
    if value is None:
        return
    sh = shape_of(value)
    if node["dims"] is None:
        if sh != ():
            raise Abort("array value for a scalar node", "C16", node["path"])
        return
    if len(sh) < len(node["dims"]):
        raise Abort("array has fewer dimensions than declared", "C16", node["path"])
    for d, (lo, hi) in enumerate(node["dims"]):
        if lo is not None and sh[d] < lo:
            raise Abort("dimension below its lower bound", "C16", [node["path"], d, sh[d], lo])
        if hi is not None and sh[d] > hi:
            raise Abort("dimension above its upper bound", "C16", [node["path"], d, sh[d], hi])


class Env:
    """Model of one committed (or in-progress) DIP environment."""

    def __init__(self):
        self.nodes = {}           # ordered: path -> node
        self.units = Units()
        self.sources = {}         # name -> {"kind": "dip", "env": Env} | {"kind": "text", "text": str}
        self.parents = []         # [(indent, name)]
        self.last_new = None      # path of the most recently created node (for directives)
        self.may_abort = False    # an import selected nothing: rejecting is allowed too

    def copy(self):
        e = Env()
        e.nodes = copy.deepcopy(self.nodes)
        e.units = self.units.copy()
        e.sources = {k: (dict(v, env=v["env"].copy()) if v["kind"] == "dip" else dict(v))
                     for k, v in self.sources.items()}
        e.parents = list(self.parents)
        e.last_new = self.last_new
        e.may_abort = self.may_abort
        return e

    # -- hierarchy ---------------------------------------------------------------
    def register(self, indent, name):
        while self.parents and indent <= self.parents[-1][0]:
            self.parents.pop()
        self.parents.append((indent, name))
        return ".".join(n for _, n in self.parents)

    # -- conversions ---------------------------------------------------------------
    def need_unit(self, text):
        if text is not None and not self.units.known(text):
            raise Unspecified(f"unit {text} is not defined in this environment")

    def convert(self, value, unit_from, unit_to, where):
        """value given in unit_from -> unit_to (both may be None)."""
        self.need_unit(unit_from)
        self.need_unit(unit_to)
        if value is None:
            return None
        if unit_from is None or unit_from == unit_to:
            return value
        if unit_to is None:
            # the definition has no unit but the assignment states one
            raise Abort("unit given for a node defined without unit", "C14", where)
        if self.units.dims(unit_from) != self.units.dims(unit_to):
            raise Abort("unit of another dimension", "C14", [where, unit_from, unit_to])
        if unit_from in TEMP and unit_to in TEMP:
            return map_leaves(value, lambda x: temp_convert(x, unit_from, unit_to))
        k = self.units.factor(unit_from) / self.units.factor(unit_to)
        return map_leaves(value, lambda x: x * k)

    # -- statements ---------------------------------------------------------------
    def define(self, st):
        """Definition / declaration / typed modification."""
        path = self.register(st["indent"], st["name"])
        typ = st["type"]
        if path in self.nodes:
            node = self.nodes[path]
            if node["type"] != typ:
                raise Abort("assignment of another data type", "C14", [path, node["type"], typ])
            if st.get("declare"):
                raise Unspecified("re-declaration of an existing node")
            if (st.get("dims") is None) != (node["dims"] is None) or (
                    st.get("dims") is not None and len(st["dims"]) != len(node["dims"])):
                raise Unspecified("typed modification changing the number of dimensions")
            if st.get("dims") is not None:
                for (lo, hi), (nlo, nhi) in zip(st["dims"], node["dims"]):
                    looser = (lo is None or (nlo is not None and lo <= nlo)) and \
                             (hi is None or (nhi is not None and hi >= nhi))
                    if not looser:
                        raise Unspecified("typed modification restating tighter bounds")
            self._assign(node, st["value"], st.get("unit"), st)
            return path
        if st.get("unit") is not None and typ in ("bool", "str"):
            raise Abort("unit on a bool/str node", "C13", path)
        self.need_unit(st.get("unit"))
        node = new_node(path, typ, st.get("bits", ""), st.get("unsigned", False),
                        st.get("unit"), st.get("dims"))
        if st.get("declare"):
            node["declared"] = True
        else:
            v = cast(typ, st["value"])
            check_dims(node, v)          # an array node may be defined as none
            node["value"] = v
            node["has_value"] = True
        self.nodes[path] = node
        self.last_new = path
        return path

    def modify(self, st):
        path = self.register(st["indent"], st["name"])
        if path not in self.nodes:
            if getattr(self, "untyped_ok", False) and isinstance(st["value"], (int, float)) \
                    and not isinstance(st["value"], bool):
                # a file of modifications used as a reference source: the line stands for an
                # untyped node holding the literal and its unit
                self.need_unit(st.get("unit"))
                node = new_node(path, "mod", unit=st.get("unit"))
                node["value"] = st["value"]
                node["has_value"] = True
                self.nodes[path] = node
                return path
            raise Unspecified("modification of a node that was never defined")
        if self.nodes[path]["type"] == "mod":
            raise Unspecified("second assignment to an untyped node of a modification file")
        self._assign(self.nodes[path], st["value"], st.get("unit"), st)
        return path

    def _assign(self, node, lit, unit, st):
        if node["constant"]:
            raise Abort("assignment to a constant node", "C14", node["path"])
        if unit is not None and node["type"] in ("bool", "str"):
            raise Unspecified("unit on a bool/str assignment")
        v = cast(node["type"], lit)
        if v is None and unit is not None:
            # 'a = none cm': no value; the unit must still fit the node's
            self.need_unit(unit)
            if node["unit"] is None or self.units.dims(unit) != self.units.dims(node["unit"]):
                raise Unspecified("none with a unit of another dimension")
        if node["type"] in ("int", "float"):
            v = self.convert(v, unit, node["unit"], node["path"])
            if node["type"] == "int" and not all_integral(v):
                raise Unspecified("integer node converted by a non-integer factor")
        check_dims(node, v)
        node["value"] = v
        node["has_value"] = True
        if v is not None:
            node["had_real_value"] = True
        node["modified"] = True

    def directive(self, st):
        if self.last_new is None or self.last_new not in self.nodes:
            raise Unspecified("directive without a preceding new node")
        node = self.nodes[self.last_new]
        k = st["k"]
        if k == "constant":
            node["constant"] = True
        elif k in ("option", "options"):
            if node["type"] not in ("int", "float", "str"):
                raise Abort("options on a bool node", "C16", node["path"])
            ounit = st.get("unit")
            if st.get("ref") is not None:
                # an option (or the list of options) taken from another node: its current
                # value, in the unit stated here or else in that node's unit
                sel = self.resolve(st["ref"])
                if len(sel) != 1:
                    raise Abort("injection must select exactly one node", "C17",
                                [ref_text(st["ref"]), len(sel)])
                rnode = sel[0][1]
                if rnode["value"] is None or rnode["type"] != node["type"]:
                    raise Unspecified("option reference of another type or without value")
                if (k == "options") != isinstance(rnode["value"], list):
                    raise Unspecified("scalar / list mismatch of an option reference")
                vals = list(rnode["value"]) if k == "options" else [rnode["value"]]
                if ounit is None:
                    ounit = rnode["unit"]
                if (ounit is None) != (node["unit"] is None):
                    raise Unspecified("option reference with / without unit")
            else:
                vals = [st["value"]] if k == "option" else list(st["values"])
            if ounit is not None and node["unit"] is None and node["type"] in ("int", "float"):
                # "compared after conversion to the node's unit": the node has none
                raise Unspecified("option with a unit on a node without unit")
            for lit in vals:
                v = cast(node["type"], lit)
                if node["type"] in ("int", "float"):
                    v = self.convert(v, ounit, node["unit"], node["path"])
                    if node["type"] == "int" and not all_integral(v):
                        raise Unspecified("integer option converted by a non-integer factor")
                node["options"].append(v)
        elif k == "condition" and st.get("unevaluable"):
            # a condition that cannot be evaluated at all (reference to a node that does not
            # exist, bound in a unit of another dimension): it is not true
            for lit, unit in cond_literals(st["expr"]):
                self.need_unit(unit)
            node["condition"] = st["expr"]
            node["cond_bad"] = st["unevaluable"]
        elif k == "condition":
            node.pop("cond_bad", None)
            for lit, unit in cond_literals(st["expr"]):
                self.need_unit(unit)
                ok = (node["type"] in ("int", "float") and isinstance(lit, (int, float))
                      and not isinstance(lit, bool)) or \
                     (node["type"] == "str" and isinstance(lit, str)) or \
                     (node["type"] == "bool" and isinstance(lit, bool))
                if not ok or (node["type"] == "int" and not isinstance(lit, int)):
                    raise Unspecified("condition literal of another type than the node")
                if unit is not None and (node["unit"] is None or
                                         self.units.dims(unit) != self.units.dims(node["unit"])):
                    raise Unspecified("condition literal in a unit of another dimension")
            if node["condition"] is not None:
                # a second !condition on the same node: replaces or adds to the first - the
                # statement says "its !condition expression"; see check_constraints
                node["cond_prev"] = list(node.get("cond_prev", [])) + [node["condition"]]
            node["condition"] = st["expr"]
        elif k == "format":
            if node["type"] != "str":
                raise Abort("format on a non-string node", "C16", node["path"])
            node["format"] = st["regex"]

    def function_def(self, st):
        """name T = (fname) [unit] — value computed by a registered callback."""
        fn = st["fn"]
        path = self.register(st["indent"], st["name"])
        if path in self.nodes:
            raise Unspecified("function value for an existing node")
        typ = st["type"]
        self.need_unit(st.get("unit"))
        if fn["kind"] == "raise":
            raise Abort("registered function raises", "C17", st["fname"])
        if fn["kind"] == "double":
            src = self.nodes.get(fn["path"])
            if src is None or src["type"] != "float" or typ != "float" or \
                    not isinstance(src["value"], float) or src["unit"] != st.get("unit"):
                raise Unspecified("callback reads a node it cannot double")
            value = 2.0 * src["value"]
        else:
            value = cast(typ, fn["value"])
        if value is None or (isinstance(value, str) and value == ""):
            # zero and false are values like any other (C14: "for every value including zero,
            # ... false"); only none and the empty string are left open
            raise Unspecified("callback returning none or an empty string")
        node = new_node(path, typ, unit=st.get("unit"))
        node["value"] = value
        node["has_value"] = True
        self.nodes[path] = node
        self.last_new = path
        return path

    def compare_def(self, st):
        """name bool = ("{?left} op {?right}") — a node-to-node comparison (both numeric,
        same dimension); used as a history step that reads two stored nodes."""
        path = self.register(st["indent"], st["name"])
        if path in self.nodes:
            raise Unspecified("comparison result for an existing node")
        a, b = self.nodes.get(st["left"]), self.nodes.get(st["right"])
        if a is None or b is None:
            raise Abort("comparison references a missing node", "C18", [st["left"], st["right"]])
        for n in (a, b):
            if n["type"] not in ("int", "float") or n["value"] is None or \
                    isinstance(n["value"], list):
                raise Unspecified("comparison of non-scalar or value-less nodes")
        if a["type"] != b["type"]:
            raise Unspecified("comparison of an int node with a float node")
        if (a["unit"] is None) != (b["unit"] is None):
            raise Unspecified("comparison of a unit-less node with a node with unit")
        va, vb = float(a["value"]), float(b["value"])
        if a["unit"] is not None:
            if self.units.dims(a["unit"]) != self.units.dims(b["unit"]):
                raise Unspecified("comparison across dimensions")
            va = va * self.units.factor(a["unit"]) / self.units.factor(b["unit"])
        if abs(va - vb) <= 1e-3 * max(abs(va), abs(vb), 1e-300) or abs(va - vb) <= ABS_BAND:
            raise Unspecified("comparison of nearly equal values")
        value = {"<": va < vb, ">": va > vb, "<=": va <= vb, ">=": va >= vb}[st["cmp"]]
        node = new_node(path, "bool")
        node["value"] = value
        node["has_value"] = True
        self.nodes[path] = node
        self.last_new = path
        return path

    def unit_def(self, st):
        self.need_unit(st.get("unit"))
        if st.get("ref") is not None:
            # $unit name = {?node} [unit]: the node's current number, in the unit stated here
            # or else in the node's own
            sel = self.resolve(st["ref"])
            if len(sel) != 1:
                raise Abort("injection must select exactly one node", "C17",
                            [ref_text(st["ref"]), len(sel)])
            rnode = sel[0][1]
            val = rnode["value"]
            if st.get("slice") and isinstance(val, list):
                try:
                    val = apply_slice(val, st["slice"])
                except Exception:
                    raise Unspecified("slice outside the referenced array")
            if rnode["type"] not in ("int", "float") or val is None or \
                    isinstance(val, (list, bool)):
                raise Unspecified("unit defined from a node that is no plain number")
            unit = st.get("unit") or rnode["unit"]
            if unit is None or not val > 0:
                raise Unspecified("unit defined from a number without unit / not positive")
            self.need_unit(unit)
            self.units.define(st["name"], val, unit)
            return
        self.units.define(st["name"], st["value"], st.get("unit"))

    # -- references (C17) ---------------------------------------------------------------
    def _domain(self, ref):
        src = ref.get("src")
        if not src:
            return self
        if src not in self.sources:
            raise Abort("reference to an unknown source", "C17", src)
        s = self.sources[src]
        if s["kind"] != "dip":
            raise Unspecified("node query on a text source")
        return s["env"]

    def resolve(self, ref):
        """[(relative name, node record)] selected by the request, in node order."""
        dom = self._domain(ref)
        q = ref["query"]
        out = []
        if q == "":
            return []          # {?}: the self reference exists only inside a condition
        if q == "*":
            out = [(p, n) for p, n in dom.nodes.items()]
        elif q.endswith(".*"):
            pre = q[:-1]
            out = [(p[len(pre):], n) for p, n in dom.nodes.items() if p.startswith(pre)]
        else:
            out = [(p.split(".")[-1], n) for p, n in dom.nodes.items() if p == q]
        return out

    def inject(self, st):
        """name [type] = {ref}[slice] [unit]  — definition or modification by reference."""
        ref = st["ref"]
        if ref.get("query") is None:
            # {source}: the text of a file
            src = self.sources.get(ref.get("src"))
            if src is None:
                raise Abort("reference to an unknown source", "C17", ref.get("src"))
            if src["kind"] != "text":
                raise Unspecified("block injection of a DIP source")
            if src.get("placeholder"):
                raise Unspecified("a remote file injecting its own text")
            value, runit, rtype = src["text"], None, "str"
            want = st.get("type")
            if want is None:
                host = self.nodes.get(".".join([n for _, n in self.parents
                                                 if _ < st["indent"]] + [st["name"]]))
                want = host["type"] if host else None
            if want in ("int", "float"):
                # numbers and arrays kept in a text file (JSON notation)
                try:
                    parsed = json.loads(src["text"])
                except ValueError:
                    raise Unspecified("text source that is not a number or an array")
                value = cast(want, parsed) if want == "float" else parsed
                if want == "int" and not all_leaves_int(parsed):
                    raise Unspecified("non-integer text for an int host")
                rtype = want
                if st.get("slice") and len(st["slice"]) > 1:
                    raise Unspecified("multi-dimensional slice of a text source")
        else:
            sel = self.resolve(ref)
            if len(sel) != 1:
                raise Abort("injection must select exactly one node", "C17",
                            [ref_text(ref), len(sel)])
            rnode = sel[0][1]
            value, runit, rtype = copy.deepcopy(rnode["value"]), rnode["unit"], rnode["type"]
            if not rnode["has_value"] and rnode["value"] is None and rnode["declared"]:
                raise Unspecified("injection of a declared node without value")
        if st.get("slice") and value is not None:
            try:
                value = apply_slice(value, st["slice"])
            except (IndexError, TypeError):
                raise Unspecified("slice does not fit the referenced value")
        if value is None and st.get("unit") is not None:
            raise Unspecified("injection of none with a unit")
        unit = st.get("unit") if st.get("unit") is not None else runit
        self.need_unit(unit)      # e.g. a custom unit of the remote source, unknown here
        path = self.register(st["indent"], st["name"])
        exists = path in self.nodes
        typ = self.nodes[path]["type"] if exists else st.get("type")
        if typ is None:
            raise Unspecified("untyped injection into an undefined node")
        if st.get("type") is not None and exists and self.nodes[path]["type"] != st["type"]:
            raise Abort("assignment of another data type", "C14", path)
        if rtype == "mod":
            # the literal of a modification file: read as the host's type
            if isinstance(value, list) or typ not in ("int", "float") or \
                    (typ == "int" and not isinstance(value, int)):      # '3244.0' is no int text
                raise Unspecified("untyped literal into a host it does not obviously fit")
            value = int(value) if typ == "int" else float(value)
            rtype = typ
        # value crosses type families only int -> float
        if value is not None:
            if typ == rtype or (typ == "float" and rtype == "int"):
                value = map_leaves(value, float) if typ == "float" else value
            else:
                raise Unspecified("injection across data types")
        if unit is not None and typ in ("bool", "str"):
            raise Unspecified("unit on a bool/str host")
        if exists:
            node = self.nodes[path]
            if node["constant"]:
                raise Abort("assignment to a constant node", "C14", path)
            if typ == "str" and node["dims"] is None and isinstance(value, list):
                raise Unspecified("array injected into a scalar string node")
            if typ in ("int", "float"):
                value = self.convert(value, unit, node["unit"], path)
                if typ == "int" and not all_integral(value):
                    raise Unspecified("integer node converted by a non-integer factor")
            check_dims(node, value)
            node["value"] = value
            node["has_value"] = True
            node["modified"] = True
        else:
            if typ == "str" and not st.get("dims") and isinstance(value, list):
                raise Unspecified("array injected into a scalar string node")
            node = new_node(path, typ, st.get("bits", ""), st.get("unsigned", False), unit,
                            st.get("dims"))
            check_dims(node, value)
            node["value"] = value
            node["has_value"] = True
            self.nodes[path] = node
            self.last_new = path
        return path

    def import_nodes(self, st):
        """[name] {ref}: re-create the selected nodes below the importing position."""
        # the selection is taken as the nodes are at this statement
        sel = [(rel, copy.deepcopy(n)) for rel, n in self.resolve(st["ref"])]
        made = []
        for rel, rnode in sel:
            name = (st["name"] + "." + rel) if st.get("name") else rel
            path = self.register(st["indent"], name)
            if path in self.nodes:
                # a node of that path exists: the imported node acts as an assignment to it
                host = self.nodes[path]
                if host["type"] != rnode["type"]:
                    raise Abort("assignment of another data type", "C14", path)
                if host["constant"]:
                    raise Abort("assignment to a constant node", "C14", path)
                if (host["dims"] is None) != (rnode["dims"] is None) or \
                        rnode["value"] is None or not rnode["has_value"]:
                    raise Unspecified("import onto an existing node of another shape / none")
                v = copy.deepcopy(rnode["value"])
                if host["type"] in ("int", "float"):
                    v = self.convert(v, rnode["unit"], host["unit"], path)
                    if host["type"] == "int" and not all_integral(v):
                        raise Unspecified("integer node converted by a non-integer factor")
                check_dims(host, v)
                host["value"] = v
                host["has_value"] = True
                host["modified"] = True
                made.append(path)
                # which node a property line after such an import belongs to is not settled
                self.last_new = None
                continue
            if rnode["type"] == "mod":
                raise Unspecified("import of an untyped node of a modification file")
            self.need_unit(rnode["unit"])    # a custom unit of the source, unknown here
            if rnode["condition"] is not None and "cmpnode" in json.dumps(rnode["condition"]):
                raise Unspecified("import of a node whose condition refers to another node")
            if rnode["value"] is None and rnode["dims"] is not None:
                raise Unspecified("import of an array node without value")
            node = copy.deepcopy(rnode)
            node["path"] = path
            node["modified"] = False
            node["imported"] = True
            self.nodes[path] = node
            self.last_new = path
            made.append(path)
        if not sel:
            # rejected or adds nothing: both are allowed (C17)
            self.may_abort = True
        return made

    def source_def(self, st, files):
        """$source name = path   (files: path -> {"kind", "stmts" | "text"}; the caller has
        already applied I/O faults)."""
        name = st["name"]
        if name in self.sources:
            raise Unspecified("source name defined twice")
        f = files.get(st["path"])
        if f is None:
            raise Abort("source file does not exist", "C17", st["path"])
        if st["path"].endswith("dip"):
            if f["kind"] != "dip":
                raise Unspecified("text content under a .dip name")
            if any(x["k"] == "fn" for x in f["stmts"]):
                raise Unspecified("remote source calling functions of the including parser")
            sub = Env()
            sub.untyped_ok = all(x["k"] == "mod" for x in f["stmts"]) and bool(f["stmts"])
            sub.sources = {k: (dict(v, env=v["env"].copy()) if v["kind"] == "dip" else dict(v))
                           for k, v in self.sources.items()}
            # the remote parse already sees the name it is being registered under
            sub.sources[name] = {"kind": "text", "text": "", "placeholder": True}
            try:
                run_statements(sub, f["stmts"], files)
                sub.validate()
            except Abort as a:
                raise Abort("remote source fails to parse: " + a.why, "C17", st["path"])
            del sub.sources[name]
            if sub.may_abort:
                self.may_abort = True
            self.sources[name] = {"kind": "dip", "env": sub}
        else:
            if f["kind"] != "text":
                raise Unspecified("DIP content under a non-.dip name")
            self.sources[name] = {"kind": "text", "text": f["text"]}

    # -- end of round ---------------------------------------------------------------
    def validate(self):
        """Commit-time validation (C16).  Raises Abort naming the first violated
        constraint; returns the number of constraints checked."""
        n = 0
        for node in self.nodes.values():
            if node["declared"] and node["value"] is None:
                if node["has_value"] and node.get("had_real_value"):
                    # assigned more than once, none last: "the last assigned value ...
                    # including none" - the node has had its value, none wins
                    r = check_constraints(self, node, margin=1e-3)
                    n += r
                    continue
                if node["has_value"]:
                    # 'none' is all it was ever assigned: whether that counts as a value of a
                    # declared node is not settled by the statements
                    raise Unspecified("declared node explicitly set to none")
                raise Abort("declared node left without value", "C14", node["path"])
            r = check_constraints(self, node, margin=1e-3)
            n += r
        return n


# ------------------------------------------------------------------------------ constraints

TOL_NEAR = 1e-5      # the independent evaluator only flags values at least this far off


ABS_BAND = 1e-6      # the library's isclose() also has an absolute tolerance (1e-8)


def _close(a, b, tol):
    if isinstance(a, str) or isinstance(b, str):
        return a == b
    if isinstance(a, list) or isinstance(b, list):
        return a == b
    return abs(a - b) <= tol * max(abs(a), abs(b), 1e-300)


def in_options(node, value, tol=1e-9):
    """tol <= 1e-9: clearly equal.  Larger tol: inside the tolerance band, which also has an
    absolute part (tiny values next to an option 0 after a unit conversion)."""
    def near(a, b):
        if _close(a, b, tol):
            return True
        return tol > 1e-9 and not isinstance(a, (str, list)) and not isinstance(b, (str, list)) \
            and abs(a - b) <= ABS_BAND
    return any(near(value, o) for o in node["options"] if o is not None)


def cond_literals(e):
    if e[0] in ("cmpref", "cmpnode"):
        return []
    if e[0] == "cmp":
        return [(e[2], e[3])]
    return cond_literals(e[1]) + cond_literals(e[2])


def eval_condition(env, node, value, margin=0.0):
    """Independent evaluation of a condition structure.
    expr := ["cmp", op, literal, unit] | ["and", e1, e2] | ["or", e1, e2]
    Returns True / False, or None when the value is closer than `margin`
    (relative) to a comparison boundary (then neither outcome is asserted)."""
    expr = node["condition"]
    if node.get("cond_bad"):
        return None

    def ev(e):
        if e[0] == "cmpref":
            return None
        if e[0] == "cmpnode":
            # the bound is another node's value at the time of validation
            other = env.nodes.get(e[2])
            if other is None or other["value"] is None or isinstance(other["value"], (list, str, bool)) \
                    or isinstance(value, (str, bool)) or other["type"] != node["type"] \
                    or (other["unit"] is None) != (node["unit"] is None):
                return None
            if other["unit"] is not None and \
                    env.units.dims(other["unit"]) != env.units.dims(node["unit"]):
                return None
            e = ["cmp", e[1], other["value"], other["unit"]]
        if e[0] == "cmp":
            _, op, lit, unit = e
            if isinstance(value, str) or isinstance(value, bool):
                if op == "==":
                    return value == lit
                if op == "!=":
                    return value != lit
                return None
            rhs = float(lit)
            if unit is not None and node["unit"] is not None and unit != node["unit"]:
                rhs = rhs * env.units.factor(unit) / env.units.factor(node["unit"])
            lhs = float(value)
            if node["type"] == "int" and abs(rhs - round(rhs)) > 1e-9 * max(1.0, abs(rhs)):
                # an integer node against a bound that is not integral in its unit: only
                # '>' and '<=' (positive bound) do not depend on how the bound is rounded
                if op not in (">", "<=") or rhs <= 0:
                    return None
            scale = max(abs(lhs), abs(rhs), 1e-300)
            if lhs != rhs and abs(lhs - rhs) <= 1e-12 * scale:
                # the same number up to the rounding of a unit conversion (generated values
                # are short decimals, two different ones are never this close): the closed
                # comparisons hold, the strict ones are left open
                if op in ("==", "<=", ">="):
                    return True
                return None
            near = abs(lhs - rhs) <= margin * scale or (margin > 0 and abs(lhs - rhs) <= ABS_BAND)
            if margin > 0 and unit is not None and node["unit"] is not None and unit != node["unit"]:
                # the library's tolerant comparison has an absolute part, and it compares in the
                # unit of whichever operand it converts to: the band applies in the bound's unit too
                k_ = env.units.factor(node["unit"]) / env.units.factor(unit)
                near = near or abs(lhs - rhs) * k_ <= ABS_BAND
            if op in ("==", "!="):
                if near and lhs != rhs:
                    return None
                return (lhs == rhs) if op == "==" else (lhs != rhs)
            if near and lhs != rhs:
                return None
            if op == "<":
                return lhs < rhs
            if op == "<=":
                return lhs <= rhs
            if op == ">":
                return lhs > rhs
            if op == ">=":
                return lhs >= rhs
            raise ValueError(op)
        a, b = ev(e[1]), ev(e[2])
        if e[0] == "and":
            if a is False or b is False:
                return False
            if a is None or b is None:
                return None
            return True
        if a is True or b is True:
            return True
        if a is None or b is None:
            return None
        return False
    return ev(expr)


def check_constraints(env, node, margin=0.0):
    """Raise Abort when `node`'s value clearly violates one of its constraints, Unspecified
    when it lies within `margin` (relative) of a boundary without sitting exactly on it."""
    v = node["value"]
    n = 0
    if v is None:
        if node["options"] or node["condition"] is not None or node["format"] is not None:
            if node.get("declared") or node.get("cond_bad") or node.get("imported"):
                raise Unspecified("constrained node without value")
            # none equals no option, makes no condition true and matches no format
            raise Abort("constrained node set to none", "C16", [node["path"]])
        return 0
    if node["options"]:
        n += 1
        if not in_options(node, v, 1e-9):
            if margin > 1e-9 and in_options(node, v, margin):
                raise Unspecified("value within the tolerance band of an option")
            raise Abort("value is not one of the options", "C16",
                        [node["path"], v, node["options"]])
    if node["condition"] is not None and node.get("cond_bad"):
        if isinstance(v, list):
            raise Unspecified("unevaluable condition on an array")
        raise Abort("condition cannot be evaluated", "C16",
                    [node["path"], v, node["condition"], node["cond_bad"]])
    if node["condition"] is not None and not isinstance(v, list):
        n += 1
        r = eval_condition(env, node, v, margin)
        if r is False:
            raise Abort("condition is false", "C16", [node["path"], v, node["condition"]])
        if r is None:
            raise Unspecified("value within the tolerance band of a condition boundary")
        for prev in node.get("cond_prev", ()):
            probe = dict(node, condition=prev)
            probe.pop("cond_bad", None)
            if eval_condition(env, probe, v, margin) is not True:
                raise Unspecified("an earlier !condition of the same node does not hold")
    if node["format"] is not None and isinstance(v, str):
        n += 1
        if not re.match(node["format"], v):
            raise Abort("format does not match", "C16", [node["path"], v, node["format"]])
    if node["dims"] is not None:
        n += 1
        check_dims(node, v)
    return n


# ------------------------------------------------------------------------------ rendering

def lit_text(v, typ=None):
    if v is None:
        return "none"
    if isinstance(v, bool):
        return "true" if v else "false"
    if isinstance(v, list):
        return json.dumps(v, separators=(",", ":"))
    if isinstance(v, str):
        return "'" + v + "'"
    if isinstance(v, float):
        return repr(v)
    return str(v)


def value_text(st):
    """The value of an assignment as written: a literal, or (for "expr": [a, op, b]) a numerical
    expression over two non-negative numbers in the statement's unit whose result is "value"."""
    e = st.get("expr")
    if not e:
        return lit_text(st["value"])
    a, op, b = e
    uu = (" " + st["unit"]) if st.get("unit") else ""
    return f'("{lit_text(a)}{uu} {op} {lit_text(b)}{uu}")'


def type_text(st):
    t = st["type"]
    if t == "int":
        return ("u" if st.get("unsigned") else "") + "int" + st.get("bits", "")
    if t == "float":
        return "float" + st.get("bits", "")
    return t


def dims_text(dims):
    if not dims:
        return ""
    parts = []
    for lo, hi in dims:
        if lo is not None and lo == hi:
            parts.append(str(lo))
        else:
            parts.append(("" if lo is None else str(lo)) + ":" + ("" if hi is None else str(hi)))
    return "[" + ",".join(parts) + "]"


def cond_text(e):
    if e[0] in ("cmpref", "cmpnode"):
        return "{?} " + e[1] + " {?" + e[2] + "}"
    if e[0] == "cmp":
        _, op, lit, unit = e
        rhs = lit_text(lit)
        if unit:
            rhs += " " + unit
        return "{?} " + op + " " + rhs
    j = " && " if e[0] == "and" else " || "
    return "(" + cond_text(e[1]) + ")" + j + "(" + cond_text(e[2]) + ")"


def ref_text(ref):
    if ref.get("query") is None:
        return "{" + (ref.get("src") or "") + "}"       # text of a source
    return "{" + (ref.get("src") or "") + "?" + ref["query"] + "}"


def slice_text(sl):
    if not sl:
        return ""
    parts = []
    for lo, hi in sl:
        if lo is not None and lo == hi:
            parts.append(str(lo))
        else:
            parts.append(("" if lo is None else str(lo)) + ":" + ("" if hi is None else str(hi)))
    return "[" + ",".join(parts) + "]"


def render(st):
    """Structured statement -> one line of DIP text."""
    ind = " " * st.get("indent", 0)
    k = st["k"]
    u = (" " + st["unit"]) if st.get("unit") else ""
    if k == "group":
        return ind + st["name"]
    c = ("  # " + st["comment"]) if st.get("comment") else ""
    if k == "def":
        if st.get("declare"):
            return ind + f"{st['name']} {type_text(st)}{dims_text(st.get('dims'))}{u}{c}"
        return ind + f"{st['name']} {type_text(st)}{dims_text(st.get('dims'))} = " \
                     f"{value_text(st)}{u}{c}"
    if k == "mod":
        return ind + f"{st['name']} = {value_text(st)}{u}{c}"
    if k == "constant":
        return ind + "!constant"
    if k == "option":
        if st.get("ref") is not None:
            return ind + f"= {ref_text(st['ref'])}{u}"
        return ind + f"= {lit_text(st['value'])}{u}"
    if k == "options":
        if st.get("ref") is not None:
            return ind + f"!options {ref_text(st['ref'])}{u}"
        return ind + f"!options {lit_text(list(st['values']))}{u}"
    if k == "condition":
        q = '"' if "'" in cond_text(st["expr"]) else "'"
        return ind + f"!condition ({q}{cond_text(st['expr'])}{q})"
    if k == "format":
        return ind + f"!format '{st['regex']}'"
    if k == "unit":
        if st.get("ref") is not None:
            return ind + f"$unit {st['name']} = {ref_text(st['ref'])}{slice_text(st.get('slice'))}{u}"
        return ind + f"$unit {st['name']} = {lit_text(st['value'])}{u}"
    if k == "source":
        return ind + f"$source {st['name']} = {st['path']}"
    if k == "inject":
        head = f"{st['name']} {type_text(st)}{dims_text(st.get('dims'))}" if st.get("type") \
            else st["name"]
        return ind + f"{head} = {ref_text(st['ref'])}{slice_text(st.get('slice'))}{u}"
    if k == "import":
        name = (st["name"] + " ") if st.get("name") else ""
        return ind + name + ref_text(st["ref"])
    if k == "tags":
        return ind + "!tags " + json.dumps(st["tags"], separators=(",", ":"))
    if k == "description":
        return ind + f"!description '{st['text']}'"
    if k == "blank":
        return ""
    if k == "cmp_expr":
        return ind + f"{st['name']} bool = (\"{{?{st['left']}}} {st['cmp']} {{?{st['right']}}}\")"
    if k == "fn":
        return ind + f"{st['name']} {type_text(st)} = ({st['fname']}){u}"
    if k == "raw":
        return st["text"]
    raise ValueError(k)


def all_leaves_int(v):
    if isinstance(v, list):
        return all(all_leaves_int(x) for x in v)
    return isinstance(v, int) and not isinstance(v, bool)


def all_integral(v):
    if v is None:
        return True
    if isinstance(v, list):
        return all(all_integral(x) for x in v)
    return abs(v - round(v)) <= 1e-9 * max(1.0, abs(v))


def apply_slice(value, sl):
    """Python-style slicing as documented: [a:b] ranges, [i] single elements, several
    comma-separated dimensions for nested lists; strings are sliced as strings."""
    sl = [tuple(x) for x in sl]

    def one(v, rest):
        lo, hi = rest[0]
        if lo is not None and lo == hi:
            v = v[lo]
            return one(v, rest[1:]) if rest[1:] else v
        v = v[slice(lo, hi)]
        if rest[1:]:
            return [one(x, rest[1:]) for x in v]
        return v
    return one(value, sl)


def run_statements(env, stmts, files):
    """Apply structured statements to a model environment."""
    for st in stmts:
        k = st["k"]
        if k == "group":
            env.register(st["indent"], st["name"])
        elif k == "def":
            env.define(st)
        elif k == "mod":
            env.modify(st)
        elif k in ("constant", "option", "options", "condition", "format"):
            env.directive(st)
        elif k == "unit":
            env.unit_def(st)
        elif k == "source":
            env.source_def(st, files)
        elif k == "inject":
            env.inject(st)
        elif k == "import":
            env.import_nodes(st)
        elif k == "fn":
            env.function_def(st)
        elif k == "cmp_expr":
            env.compare_def(st)
        elif k in ("tags", "description"):
            # annotations: no effect on values or constraints, but like every property line
            # they need a node to belong to
            if not env.nodes:
                raise Unspecified("annotation without a preceding node")
        elif k == "blank":
            pass
        elif k == "raw":
            if st.get("aborts"):
                raise Abort(st["aborts"], st.get("prop", "C13"))
        else:
            raise ValueError(k)
