"""Texts of MANIFEST.json (kept beside the registry so that they cannot drift)."""

TEXT = {
    "C02": dict(
        technique="deterministic simulation with fault injection: seeded histories of solve() on "
                  "long-lived solver instances, faults swept over every token position, differential "
                  "oracle against a fresh instance",
        level_text="Fault enumeration inside seeded histories: every run drives up to six long-lived "
                   "solver configurations (default, custom atom types, operator subset, custom step "
                   "order, the unit parser's atom) through a sequence of solve() calls; calls fail by "
                   "text faults (unknown atom, unbalanced parenthesis, missing operand, arity, doubled "
                   "operator) and by faults injected in the atom seam (constructor / arithmetic / "
                   "comparison / function raising at the n-th event, incl. KeyboardInterrupt); for one "
                   "call per run the fault position sweeps every token of the expression. Each result is "
                   "compared with a fresh instance given the same input and fault.",
        level_note="Trusted: a fresh instance is the reference (history must not matter, by the "
                   "property); comparison is on repr of value / exception type and args. Sampled "
                   "histories, not all.",
        design_ref="4 (C02)"),
    "C09": dict(
        technique="deterministic simulation with fault injection: seeded open/close/raise/use/DIP-parse "
                  "histories over the real global unit tables, failing registration swept over every "
                  "position, snapshot oracle after every step",
        level_text="Fault enumeration inside seeded histories: nested real UnitEnvironment scopes and DIP "
                   "parses over the real process-global tables; registration fails at every position k of "
                   "the units dict (duplicate of a table / enclosing symbol, clash with a prefixed symbol "
                   "found only by the final uniqueness check, malformed definition, unknown prefix), bodies "
                   "raise through several scopes (Exception and KeyboardInterrupt), DIP texts fail at "
                   "chosen lines. After every step the three tables are compared with the content "
                   "recorded before the scope opened.",
        level_note="Trusted: snapshot through public accessors of ParameterTable; overlapping (non-LIFO) "
                   "scopes and double close() are out of scope of the statement.",
        design_ref="4 (C09)"),
}

NOT_APPLICABLE = {
    "C01": "pure function of the expression string: no state, schedule, clock, I/O or fault between "
           "input and output for a simulator to control",
    "C03": "factor, dimension vector, rendering and rejection are a pure function of the unit string "
           "and the constant tables; nothing persists between calls (table mutability is C09)",
    "C05": "affine and logarithmic formulas are a pure function of (unit pair, value); the round trip is "
           "an identity of two pure calls, not a history",
    "C06": "the result of an operator is a pure function of its operands; no clause constrains state "
           "after the call (operand preservation is C07)",
    "C08": "uncertainty propagation is a pure function of operands and operator",
    "C10": "composition and totals are a pure function of the formula string and the isotope table",
    "C11": "fractions are a pure function of the mixture specification",
    "C12": "densities and masses are a pure function of composite and inputs",
    "C13": "paths, types and values are a pure function of the DIP text; the parser's stacks live "
           "inside one parse",
    "C15": "which nodes take effect is a pure function of the DIP text and the truth values; no state "
           "survives the parse that the statement constrains",
    "C18": "expression results are a pure function of expression text and environment",
    "C19": "a pure translation whose oracle is each target language's own compiler (translation "
           "validation); the only I/O, save(), is not constrained by the statement",
}

# claimed by DESIGN.md, machine not committed yet (listed so that the manifest is never silent
# about a property; entries disappear as the machines land)
PENDING = {
    "C04": "planned (quantity machine, ledger oracle) - not built yet in this commit",
    "C07": "planned (quantity machine, snapshot oracle) - not built yet in this commit",
    "C14": "planned (dipstore machine) - not built yet in this commit",
    "C16": "planned (dipstore machine) - not built yet in this commit",
    "C17": "planned (dipstore machine) - not built yet in this commit",
    "C20": "planned (helpers machine) - not built yet in this commit",
}
