"""Texts of MANIFEST.json (kept beside the registry so that they cannot drift)."""

TEXT = {
    "C02": dict(
        technique="deterministic simulation with fault injection: seeded histories of solve() on "
                  "long-lived solver instances, faults swept over every token position, differential "
                  "oracle against a fresh instance",
        level_text="Fault enumeration inside seeded histories: every run drives up to six long-lived "
                   "solver configurations (default, custom atom types, operator subset, custom step "
                   "order, the unit parser's atom) through a sequence of solve() calls; calls fail by "
                   "text faults (unknown atom, unbalanced parenthesis, missing operand, arity, doubled "
                   "operator) and by faults injected in the atom seam (constructor / arithmetic / "
                   "comparison / function raising at the n-th event, incl. KeyboardInterrupt); for one "
                   "call per run the fault position sweeps every token of the expression. Each result is "
                   "compared with a fresh instance given the same input and fault; in addition fixed canary "
                   "expressions (incl. ones sensitive to NumPy's floating-point error mode) must give, "
                   "on every instance and at any time, the outcome recorded on a pristine instance at "
                   "the start of the run (absolute reference against state shared by all instances). "
                   "Thirteen configurations incl. accumulator-style atoms whose arithmetic writes into the left operand, an atom factory returning several classes, NumPy-array atoms, "
                   "a table extended by user-defined parenthesis operators (own separator, own "
                   "brackets), a table with function operators but no plain parenthesis and a step "
                   "sequence that omits operators of its table; expressions nested up to 120 deep, numbers cut off at their exponent, "
                   "Expression objects as arguments. A third reference besides the fresh instance and the "
                   "per-run record: every canary's outcome in a process of its own that has solved nothing "
                   "else, computed before the search starts (catches state shared by all instances that "
                   "an earlier run of the same worker has already set). One run in 40 is a marathon: up to 160 solve() calls on the same instances (counters, caches and thresholds that only a long-lived instance reaches). In a third of the runs the long-lived instances are used through `with` blocks in turn (several sessions on the same objects). User code that uses the library: an atom class whose constructor solves two expressions on another long-lived solver (configuration reentrant), a user-defined postfix operator whose constructor reads its factor from the live expression and solves it with another solver (configuration userop).",
        level_note="Trusted: a fresh instance is the reference (history must not matter, by the "
                   "property); comparison is on repr of value / exception type and args. Sampled "
                   "histories, not all.",
        design_ref="4 (C02)"),
    "C09": dict(
        technique="deterministic simulation with fault injection: seeded open/close/raise/use/DIP-parse "
                  "histories over the real global unit tables, failing registration swept over every "
                  "position, garbage collection scheduled by the simulator, snapshot oracle after every "
                  "step; a second simulator drives the same tables through generated DIP parse rounds "
                  "that end early in every way the parser can",
        level_text="Fault enumeration inside seeded histories: nested real UnitEnvironment scopes and DIP "
                   "parses over the real process-global tables; registration fails at every position k of "
                   "the units dict (duplicate of a table / enclosing symbol, clash with a prefixed symbol "
                   "found only by the final uniqueness check, malformed definition, unknown prefix), bodies "
                   "raise through several scopes (Exception and KeyboardInterrupt), DIP texts fail at "
                   "chosen lines. After every step the three tables are compared with the content "
                   "recorded before the scope opened. Units are given in dict and Quantity form, with "
                   "custom and built-in conversion classes; the same units dict object is reused by later "
                   "scopes; a scope whose own exit raises, or that opens although one of its symbols "
                   "already existed, is a violation. The cyclic garbage collector runs only when the "
                   "simulator says so (an operation of its own and the end of every run), so finalisers of "
                   "abandoned scopes fire at replayable instants; one conversion class really converts "
                   "(gauge units, takes over Celsius while registered) and 1 Cel -> K is probed against "
                   "the scopes open at that moment. About 30 % of the runs are rounds of the DIP store "
                   "machine (custom units always present; aborting assignments, violated and unevaluable "
                   "constraints, failing references and imports, raising callbacks, I/O faults, a "
                   "malformed first text on the same parser object) judged only by: the tables equal the "
                   "baseline after every parse.",
        level_note="Trusted: snapshot through public accessors of ParameterTable; overlapping (non-LIFO) "
                   "scopes and double close() are out of scope of the statement.",
        design_ref="4 (C09)"),
    "C07": dict(
        technique="deterministic simulation: seeded operation histories over a pool of live quantities "
                  "whose results re-enter the pool, snapshot oracle on every member after every step",
        level_text="Exploration of seeded histories: up to 8 live quantities (linear, prefixed, compound, "
                   "dimensionless, logarithmic and temperature units; float, Decimal and array magnitudes; "
                   "with and without uncertainty) are combined by every operator, reflected operator, "
                   "comparison, power, indexing, 20 NumPy functions and the query methods, including calls "
                   "that raise; results enter the pool and are later converted in place, which is what "
                   "exposes state shared between a result and its operands. After every step every member "
                   "except the target of an explicitly in-place method must report exactly the same "
                   "value(), units() and abse(), the same kind of magnitude (float / Decimal / array), and "
                   "the same units and value of its product with one candela (recomputed from the unit "
                   "exponents, which are shared between results and operands). Arrays handed to the "
                   "constructor by the caller must stay untouched. An in-place method that raises (to() with "
                   "a quantity target whose magnitude is zero, an array of another shape or a Decimal; "
                   "rebase() of a product whose custom unit's scope has ended; refused conversions) must "
                   "leave its own object as it was, too. The caller writes into arrays it owns (the one a "
                   "quantity was built from, the one value() handed out): only the owner of that storage "
                   "may change; members are also taken from a long-lived Unit() accessor. A reading in "
                   "another unit (value(unit)) is compared with the reading of a fresh quantity built from "
                   "the member's own value() and units(): a long-lived operand reads like a new one. One "
                   "run in 40 is a marathon (a history ten times the ordinary cap of 40 operations). Every "
                   "successful in-place to(<unit text>) is compared with what a fresh quantity built from "
                   "the member's own report reads in that unit (whatever an operand remembers from an "
                   "earlier conversion or operator must not show in its next conversion). In 30 % of "
                   "the runs everything happens inside a unit scope whose conversion class, whenever a "
                   "conversion asks it, computes with quantities of its own (temperature, level, cosine, "
                   "+, -, ==; in rotating order) and declines: the nested results, its own operands and "
                   "the outer operation are all checked.",
        level_note="Trusted: NumPy equality; a float that became an equal Decimal is not counted as a "
                   "change. Sampled histories, not all.",
        design_ref="4 (C07)"),
    "C04": dict(
        technique="deterministic simulation with fault injection: seeded chains of in-place to() / "
                  "value(v) with refused conversions interleaved, ledger oracle (conserved base value) "
                  "computed from the table rows independently of the unit parser",
        level_text="Exploration of seeded histories: each pool member in a linear unit carries a ledger "
                   "(base value x*f(u), dimension vector; f from the published table rows, never the "
                   "parser). Chains of up to 30 in-place conversions and out-of-place value() queries over "
                   "random table symbols x admissible prefixes x integer / fractional exponents x "
                   "compounds and '#' system units: every accepted conversion must report B/f(v) within "
                   "n*1e-12 (reciprocal rule 1/B/f(v); bare number to rad unchanged), B is conserved along "
                   "the chain (round trip and path independence); refused conversions (other dimension, "
                   "partially reciprocal, number to unit) must raise and leave value, units and "
                   "uncertainty bit-identical. Conversions to and from temporary custom units "
                   "(UnitEnvironment scopes whose symbols recur with other magnitudes, with inner scopes that "
                   "are refused) are included, as are conversions into multiples of another live quantity "
                   "(to(Quantity)): when such a call fails at its last step the quantity must be the one "
                   "it was. Also: unit objects instead of unit texts as targets of to() and value(), "
                   "exponents written with a negative denominator, Decimal scalars, arrays holding zeros of "
                   "either sign in reciprocal queries, rebase() of a member (its value in its old unit "
                   "must be what the ledger says), buffers the caller reuses after building a quantity, "
                   "plain numbers as targets (to(None), to({})): accepted for dimensionless units, refused "
                   "for everything else; quantities made inside a custom-unit scope and converted for the "
                   "first time after it / inside a later scope that gives the symbol another size keep "
                   "the base value they were made with. In 30 % of the runs everything happens inside a "
                   "unit scope whose conversion class uses the library whenever it is asked (see C07) and "
                   "declines.",
        level_note="Only the clauses about one mutable object through a history are decided; the factor "
                   "formula over all unit triples is sampled as a by-product, not covered. Magnitudes kept "
                   "within 1e+-290; offset/logarithmic units excluded by the statement; bare number to "
                   "prefixed/powered radians left open.",
        design_ref="4 (C04)"),
    "C20": dict(
        technique="deterministic simulation with fault injection: seeded operation histories (including "
                  "failing operations) on live table / collector objects against dict and list-of-rows "
                  "models; exhaustive small-range enumeration for the two stateless clauses",
        level_text="Exploration of seeded histories: one real ParameterTable (keyed or list mode) or "
                   "RowCollector (list mode, array mode with typed columns, columns defined by the first "
                   "dict) per run, driven by append / overwrite / delete / lookups by key, position and "
                   "attribute / sort (with ties, reverse) and by operations that must fail (missing key, "
                   "position out of range, unknown column) and leave the object unchanged. Every public "
                   "accessor is compared with the model after every step; after sort the column must be "
                   "monotone and the multiset of rows unchanged; malformed rows (too few values, a "
                   "missing column, a cell that cannot be cast to its column's type, a lazy row whose source "
                   "fails part-way) must be refused without a trace; a sort that fails (unknown column, "
                   "unorderable values) must leave the rows as they were; the documented conversion "
                   "helpers (to_dataframe, to_text, to_dict, data) are operations too - the object is the "
                   "same afterwards, also when the caller scribbles over the export or fills a deep copy "
                   "further; unsigned-integer columns, descending sorts with zeros; plain, restarted, nested and zipped "
                   "iteration over a table are compared with the model. The grid and combination clauses are "
                   "stateless and are enumerated exhaustively (n <= 40, columns <= 8, both orders, list "
                   "and dict data; all shapes of <= 3 lists of <= 3 items; every query asked again, in "
                   "another order and as two passes at once on the same object) - that part is plain "
                   "enumeration and is labelled so in the evidence. One run in 40 is a marathon (up to 400 "
                   "operations: collectors of hundreds of rows, growth boundaries of array columns). In a "
                   "third of the runs a second table / collector of a configuration of its own (half of "
                   "the time with the same field, key and column names) is alive and used in turn with the "
                   "first; after every operation on either, both are compared with their models. The stateless clauses also cover "
                   "enumerations nested in / zipped with another enumeration of the same object (other "
                   "orientation, empty cells, keys / values / items).",
        level_note="Keys are identifier-like strings that are not attribute names of the class; columns "
                   "are homogeneously typed (int, float without NaN, str, bool) or int-with-None (never "
                   "the sort column): mixed str/number columns are outside what the statement's rows can "
                   "mean once NumPy coerces them.",
        design_ref="4 (C20)"),
    "C14": dict(
        technique="deterministic simulation with fault injection: seeded chains of parse transactions "
                  "over chained DIP environments, statement-by-statement reference model (last-write-wins "
                  "register in the definition's type and unit), aborting assignments as faults",
        level_text="Exploration of seeded histories: up to 6 parse rounds per run, each 1-20 generated "
                   "statements (groups, typed definitions and declarations of bool / int / float / str "
                   "scalars and 1-D / 2-D arrays incl. sub-types, typed and untyped modifications with no "
                   "unit / same unit / other unit of the same dimension / custom $unit, !constant, in 40 % "
                   "of the runs also options / conditions / formats) split over several add_string / "
                   "add_file / add_unit calls and chained on any earlier committed environment. The "
                   "model predicts, statement by statement, the value in the definition's unit (0, "
                   "negatives, false, none included); faults are the four aborting assignments (other data "
                   "type, unit of another dimension or unit on a unit-less node, write to a constant, "
                   "declared node left without value); rounds that define units only, custom units as the "
                   "*target* of a conversion, none assigned last to a declared node that has had a value, a declared node copied by "
                   "an import before it has a value, the parser used as a context manager and asked to "
                   "parse after its block, accessors read in both orders of formats; typed assignments whose "
                   "value is written as an expression (zero results included); integer nodes must hold "
                   "integers exactly, integers beyond 2**53 in 64-bit nodes; one run in 40 is a "
                   "marathon (up to 24 rounds, texts of up to ~90 statements that mostly define: "
                   "environments of dozens of nodes). Oracles: commit/abort as predicted, names in order "
                   "of first appearance, type class / width / sign, unit and value (1e-12 relative). Sessions: in about one round in eight a second parser object is alive across the round - it was handed the text of an earlier committed round on the same base before the round's own parser existed and parses while that parser holds its queued text, or after the round has ended; or the round's own parser object is asked a second time with that text - and must return the environment that text gave before. Registered functions may use the library themselves (kind reenter): they parse other texts on parser objects of their own - with custom units under the names the outer texts use, and texts that must be refused -, convert quantities and open a unit scope; nested results are checked after the round.",
        level_note="Width changes, modifications of never-defined nodes, empty strings, none for array "
                   "nodes or with a unit, integer nodes converted by non-integer factors and a declared "
                   "node explicitly set to none are not generated (the statement does not settle them); "
                   "property directives only directly after a new node.",
        design_ref="4 (C14/C16/C17), Appendix A"),
    "C16": dict(
        technique="deterministic simulation with fault injection: seeded parse transactions with "
                  "constrained nodes, constraint violations (also on nodes constrained in an earlier "
                  "round) as faults, independent re-validation of every returned environment",
        level_text="Exploration of seeded histories on the same store machine with the constraint mix: "
                   "options (per-line and list form, in other units and custom units), !condition over {?} "
                   "with < <= > >= == != joined by && and || for numeric, string and boolean nodes, "
                   "!format, bounded array dimensions, declarations; final values exactly on a closed "
                   "boundary in the node's own unit, well inside, or clearly (>= 1e-3) outside; "
                   "constraints attached in one round and violated by a modification in a later chained "
                   "round; bounds written in other units and from a palette of recurring literals; "
                   "imported copies of constrained nodes (and property lines attached to a copy only); "
                   "typed re-definitions restating looser bounds; conditions that cannot be evaluated "
                   "(reference to a missing node, bound of another dimension) must make the parse fail; "
                   "a malformed first text refused on the same parser object before the real text; "
                   "conditions whose bound is another node (re-evaluated when only that node changes in a "
                   "chained round); values exactly on an open boundary and none on a constrained node (both "
                   "refused); user functions that convert or extend what they are handed; several "
                   "!options clauses with the same numbers in different units; fully open dimensions "
                   "before bounded ones; an imported copy given a !format of its own; a second, looser "
                   "!condition in front of the generated one (a value breaking the later one is refused "
                   "whether conditions replace or add to each other); a settings file read before the text "
                   "that defines its nodes (unspecified whether accepted - but a returned environment "
                   "satisfies the constraints written with the definitions). Oracles: the model's commit/abort verdict in both directions (reject and "
                   "accept), and an independent evaluator re-checks every returned environment against "
                   "all constraints its nodes carry, whatever the model predicted. Sessions: in about one round in eight a second parser object is alive across the round - it was handed the text of an earlier committed round on the same base before the round's own parser existed and parses while that parser holds its queued text, or after the round has ended; or the round's own parser object is asked a second time with that text - and must return the environment that text gave before. Registered functions may use the library themselves (kind reenter): they parse other texts on parser objects of their own - with custom units under the names the outer texts use, and texts that must be refused -, convert quantities and open a unit scope; nested results are checked after the round.",
        level_note="Values within 1e-3 relative of a boundary without sitting on it are treated as "
                   "unspecified (the library compares with 1e-6 tolerance); constrained nodes are not "
                   "set to none; condition literals have the node's type and dimension.",
        design_ref="4 (C14/C16/C17), Appendix A"),
    "C17": dict(
        technique="deterministic simulation with fault injection: seeded parse transactions with "
                  "injections, imports, remote sources behind an in-memory file system with per-open I/O "
                  "faults and content replaced between rounds; snapshot oracle on every earlier environment",
        level_text="Exploration of seeded histories on the same store machine with the reference mix: "
                   "injections {?p} / {s?p} into new and existing nodes with and without host unit and "
                   "slices (arrays and strings), injections of file text, imports {?p.*} / {?p} / {?*} / "
                   "{s?...} below fresh groups, $source of DIP and text files in SimFS, chunks added by "
                   "add_file, modifications of source or host afterwards, rounds chained on any earlier "
                   "environment; imports onto existing paths (assignment of the imported value and unit); "
                   "node-to-node comparison steps; registered callback functions (constant, reading a "
                   "stored node, scribbling over their data, raising). Faults: requests selecting none / "
                   "several / {?} outside a condition / unknown source / missing file / a host adopting a "
                   "unit of another dimension (must abort; units sized by reference ($unit u = {?a}), "
                   "temperatures with offset conversion (0 Cel is 273.15 K), 2-D slices as element, row "
                   "and column, files of modifications used as reference sources (untyped values picked "
                   "up with their unit); an empty import may abort or add nothing), ENOENT / EACCES / EIO / undecodable "
                   "/ torn (a prefix cut at an arbitrary character: a file read while it was being "
                   "written) on a chosen open, file content replaced between rounds, a documentation "
                   "build (DIP(base, docs=True).parse_docs()) run over the base before the round's parse. Oracles: values, units, types "
                   "and paths as the model predicts; after every round every earlier environment "
                   "(including the base) and its custom units report exactly their commit-time snapshot "
                   "and SimFS content is unchanged. Sessions: in about one round in eight a second parser object is alive across the round - it was handed the text of an earlier committed round on the same base before the round's own parser existed and parses while that parser holds its queued text, or after the round has ended; or the round's own parser object is asked a second time with that text - and must return the environment that text gave before. Registered functions may use the library themselves (kind reenter): they parse other texts on parser objects of their own - with custom units under the names the outer texts use, and texts that must be refused -, convert quantities and open a unit scope; nested results are checked after the round. The script that creates a parser lives in a directory: parsers are also created by code compiled under a file name in one of two project directories of the simulated file system, whose text files are then named by relative paths (resolved against the creating script, also when chained on an environment a script of the other directory produced).",
        level_note="Remote files use standard units; imports go below fresh groups (colliding paths are "
                   "not generated); injection across data types only int -> float; slicing a node "
                   "without value is not generated. File system is a stub (SimFS) installed as the "
                   "module-level `open` of dip.dip and dip.nodes.node_source.",
        design_ref="4 (C14/C16/C17), Appendix A"),
}

NOT_APPLICABLE = {
    "C01": "pure function of the expression string: no state, schedule, clock, I/O or fault between "
           "input and output for a simulator to control",
    "C03": "factor, dimension vector, rendering and rejection are a pure function of the unit string "
           "and the constant tables; nothing persists between calls (table mutability is C09)",
    "C05": "affine and logarithmic formulas are a pure function of (unit pair, value); the round trip is "
           "an identity of two pure calls, not a history",
    "C06": "the result of an operator is a pure function of its operands; no clause constrains state "
           "after the call (operand preservation is C07)",
    "C08": "uncertainty propagation is a pure function of operands and operator",
    "C10": "composition and totals are a pure function of the formula string and the isotope table",
    "C11": "fractions are a pure function of the mixture specification",
    "C12": "densities and masses are a pure function of composite and inputs",
    "C13": "paths, types and values are a pure function of the DIP text; the parser's stacks live "
           "inside one parse",
    "C15": "which nodes take effect is a pure function of the DIP text and the truth values; no state "
           "survives the parse that the statement constrains",
    "C18": "expression results are a pure function of expression text and environment",
    "C19": "a pure translation whose oracle is each target language's own compiler (translation "
           "validation); the only I/O, save(), is not constrained by the statement",
}

# claimed by DESIGN.md, machine not committed yet (listed so that the manifest is never silent
# about a property; entries disappear as the machines land)
PENDING = {}
