#!/bin/sh
# Nothing to build: pure Python run with the interpreter of the repository's own suite.
# Verify that interpreter, NumPy and the tree under test are importable offline.
PY="${VERIF_PYTHON:-/venv/bin/python}"
cd "$(dirname "$0")" || exit 2
exec "$PY" -B -W ignore -c "
import sys; sys.path.insert(0, '.')
from sim import bootstrap
src = bootstrap.activate()
import numpy, scinumtools.units, scinumtools.dip, scinumtools.solver
print('setup ok: python', sys.version.split()[0], 'numpy', numpy.__version__, 'scinumtools from', src)
"
