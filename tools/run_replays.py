#!/usr/bin/env python3
"""Developer tool: run many replay files in one process against SNT_SRC and print
'<file> pass|fail <signature>' per file.   usage: SNT_SRC=... run_replays.py files..."""
import json, os, sys
sys.path.insert(0, os.path.dirname(os.path.dirname(os.path.abspath(__file__))))
from sim import bootstrap
bootstrap.activate()
from sim import core, registry
for f in sys.argv[1:]:
    rep = core.load_replay(f)
    if "trace" not in rep:
        rep = rep["reproducer"]
    m = registry.machine(rep.get("machine") or registry.PROPS[rep["config"]["prop"]]["machine"])
    try:
        r = core.run_trace(m, rep["config"], rep["trace"])
        print(f, "fail " + r.violation.signature if r.violation else "pass", flush=True)
    except Exception as e:
        print(f, "error", type(e).__name__, e, flush=True)
