# Developer tool: list violations of *another* property's clause met while running a DIP check
# (they are counted as probes, not reported): find_foreign.py <prop> <first run> <last run>
import sys, os, json
sys.path.insert(0,'/verif')
os.environ.setdefault("PYTHONHASHSEED","0")
from sim import bootstrap; bootstrap.activate()
from sim import core, registry
from sim.m_dipstore import DipStoreMachine as M
prop=sys.argv[1]; lo=int(sys.argv[2]); hi=int(sys.argv[3])
orig=M._violation
hits=[]
def patched(self, tag, oracle, detail, sig):
    if tag != self.cfg["prop"]:
        hits.append((tag, oracle, sig, json.dumps(detail, default=repr)[:1500]))
    return orig(self, tag, oracle, detail, sig)
M._violation=patched
for i in range(lo,hi):
    n=len(hits)
    r=core.run_generated(M, prop, 0, i, "quick", None)
    if len(hits)>n:
        for h in hits[n:]:
            print("run",i,h[0],h[1],h[2]); print("   ",h[3])
