#!/bin/sh
# Developer tool: verify a seeded change and run checks against it.
#   try_seed.sh <seed-id> <patch.diff> <demo.py> <prop> [<prop>...]
# 1. fresh scratch worktree of /repo HEAD under /tmp, patch applied
# 2. demo must exit 0 on the clean tree and 1 on the patched tree
# 3. the repository's suite must still pass on the patched tree
# 4. each listed check (quick tier) runs against the patched tree through SNT_SRC
# The worktree is removed at the end.  Nothing is changed in /repo.
id="$1"; patch="$2"; demo="$3"; shift 3
wt="/tmp/seedwt_$id"
git -C /repo worktree remove --force "$wt" >/dev/null 2>&1
git -C /repo worktree add -q "$wt" "${BASE:-HEAD}" || exit 2
cd "$wt" || exit 2
/venv/bin/python -B -W ignore "$demo" "$wt/src" >/dev/null 2>&1; clean=$?
git apply "$patch" || { echo "PATCH DOES NOT APPLY"; git -C /repo worktree remove --force "$wt"; exit 2; }
/venv/bin/python -B -W ignore "$demo" "$wt/src" >/dev/null 2>&1; patched=$?
suite=$(/venv/bin/python -B -m pytest -q -p no:cacheprovider --timeout=900 2>&1 | tail -1)
echo "seed=$id demo_clean_exit=$clean demo_patched_exit=$patched suite='$suite'"
for p in "$@"; do
  out=$(cd /verif && SNT_SRC="$wt/src" ./check "$p" --tier quick --no-selftest --no-evidence ${WORKERS:+--workers $WORKERS} ${CAP:+--cap $CAP} 2>&1)
  rc=$?
  echo "  check $p exit=$rc $(echo "$out" | grep -c '^VIOLATION') violation line(s)"
  if [ -n "$SAVE_CORPUS" ]; then
    # keep the minimised histories as pinned corpus entries (replayed by every run)
    mkdir -p "/verif/corpus/$p"; n=0
    for f in $(echo "$out" | sed -n 's/^VIOLATION property=[A-Z0-9]* replay=//p' | head -4); do
      n=$((n+1)); cp "$f" "/verif/corpus/$p/$id-$n.json"
    done
  fi
  echo "$out" | grep '^violation' | head -3 | cut -c1-400 | sed 's/^/    /'
done
cd /; git -C /repo worktree remove --force "$wt"
find "$wt" -name __pycache__ -prune -exec rm -rf {} + 2>/dev/null; rm -rf "$wt"
