#!/usr/bin/env python3
"""Developer tool: write seeded/<id>/meta.json.
   write_meta.py <id> <round> <base> <change> <needs> <check> <oracle> <missed 0|1> [strengthening]"""
import json, sys
sid, rnd, base, change, needs, check, oracle, missed = sys.argv[1:9]
strength = sys.argv[9] if len(sys.argv) > 9 else None
BRIEF = {
 "13": "history length and order dependence (a count of operations, a size boundary, the k-th repetition, one particular order)",
 "14": "see DESIGN.md 10.4",
 "16": "re-entrancy and user code running in the middle of an operation: invisible for passive callbacks, appears when the user code behind a seam uses the library itself, raises, or the operation is entered again before it finished",
 "15": "several live objects and interleaved sessions: invisible while one object is used from start to finish, appears when two or more live objects / sessions are used in turn",
}
m = {"id": sid, "round": int(rnd), "property": sid.split("-")[0], "change": change,
     "needs_to_manifest": needs,
     "author": "independent sub-agent given only the property text, the earlier rounds' changes to avoid, "
               "the round's theme (" + BRIEF.get(rnd, "") + ") and a scratch worktree",
     "confirmed": f"tools/try_seed.sh: fresh worktree of /repo at {base}; demo exits 0 on the clean tree and 1 with "
                  "the patch; repository suite 218 passed with the patch; quick check against the patched tree (SNT_SRC)",
     "caught_by": ({"check": check, "oracle": oracle} if check != "-" else None),
     "missed_at_first": bool(int(missed)), "base_commit": base}
if strength:
    m["strengthening"] = strength
json.dump(m, open(f"/verif/seeded/{sid}/meta.json", "w"), indent=1)
print("wrote", sid)
