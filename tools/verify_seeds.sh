#!/bin/sh
# Developer tool: run every seeded change under /verif/seeded against its property's quick
# check (patched scratch worktree, SNT_SRC) and print one line per seed.
cd /verif
for d in seeded/*/; do
  id=$(basename "$d"); p=${id%-*}
  base=$(python3 -c "import json;m=json.load(open('$d/meta.json'));print('HEAD' if m.get('applies_to_head',True) else m.get('base_commit','HEAD'))")
  out=$(BASE=$base tools/try_seed.sh "$id" "/verif/$d/patch.diff" "/verif/$d/demo.py" "$p" 2>&1)
  s=$(echo "$out" | grep "^seed=" | sed 's/ suite=.*//')
  c=$(echo "$out" | grep "  check" | sed 's/^ *//')
  echo "$s | base=$base | $c"
done
