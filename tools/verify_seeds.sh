#!/bin/sh
# Developer tool: run every seeded change under /verif/seeded against its property's quick
# check (patched scratch worktree, SNT_SRC) and print one line per seed.  A patch that no
# longer applies to /repo HEAD (a later repair touched the same lines) is tried on the
# commit it was written for (meta.json: base_commit).
cd /verif
for d in seeded/*/; do
  id=$(basename "$d"); p=${id%-*}
  base=HEAD
  out=$(BASE=$base tools/try_seed.sh "$id" "/verif/$d/patch.diff" "/verif/$d/demo.py" "$p" 2>&1)
  if echo "$out" | grep -q "PATCH DOES NOT APPLY"; then
    base=$(python3 -c "import json;print(json.load(open('$d/meta.json')).get('base_commit','HEAD').split()[0])")
    out=$(BASE=$base tools/try_seed.sh "$id" "/verif/$d/patch.diff" "/verif/$d/demo.py" "$p" 2>&1)
  fi
  s=$(echo "$out" | grep "^seed=" | sed 's/ suite=.*//')
  c=$(echo "$out" | grep "  check" | sed 's/^ *//')
  echo "$s | base=$base | $c"
done
