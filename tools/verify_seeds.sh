#!/bin/sh
# Developer tool: run every seeded change under /verif/seeded against its property's quick
# check (patched scratch worktree, SNT_SRC) and print one line per seed.  A patch that no
# longer applies to /repo HEAD (a later repair touched the same lines) is tried on the
# commit it was written for (meta.json: base_commit).
#   verify_seeds.sh [k n]     only the seeds whose index modulo n is k (for parallel streams;
#                             combine with WORKERS=<w> CAP=<seconds>)
cd /verif
k=${1:-0}; n=${2:-1}; i=0
for d in $(ls -d seeded/*/ | sort -V); do
  i=$((i+1)); [ $((i % n)) -eq "$k" ] || continue
  id=$(basename "$d"); p=${id%-*}
  base=HEAD
  out=$(BASE=$base tools/try_seed.sh "$id" "/verif/$d/patch.diff" "/verif/$d/demo.py" "$p" 2>&1)
  if echo "$out" | grep -q "PATCH DOES NOT APPLY"; then
    base=$(python3 -c "import json;print(json.load(open('$d/meta.json')).get('base_commit','HEAD').split()[0])")
    out=$(BASE=$base tools/try_seed.sh "$id" "/verif/$d/patch.diff" "/verif/$d/demo.py" "$p" 2>&1)
  fi
  s=$(echo "$out" | grep "^seed=" | sed 's/ suite=.*//')
  c=$(echo "$out" | grep "  check" | sed 's/^ *//')
  echo "$s | base=$base | $c"
done
