#!/bin/sh
# Developer tool: take a sub-agent's delivery (/tmp/rNN/out/<prop>/{A,B}.diff, *_demo.py, *_notes.md)
# into /verif/seeded/<prop>-<n>/ and verify it with try_seed.sh.
#   ingest_round.sh <round-dir> <prop> <A|B> <number>
rd="$1"; p="$2"; ab="$3"; n="$4"
d="/verif/seeded/$p-$n"; mkdir -p "$d"
cp "$rd/out/$p/$ab.diff" "$d/patch.diff"; cp "$rd/out/$p/${ab}_demo.py" "$d/demo.py"; cp "$rd/out/$p/${ab}_notes.md" "$d/notes.md"
shift 4
/verif/tools/try_seed.sh "$p-$n" "$d/patch.diff" "$d/demo.py" "$p" "$@"
