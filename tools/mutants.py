#!/venv/bin/python
"""Developer tool: systematic sensitivity sweep with small syntactic changes.

Not a registered check.  It complements the hand-written seeded changes in
/verif/seeded: every mutant is one token-level edit of a source file of the
repository (comparison swapped, +/- swapped, and/or swapped, condition negated,
statement dropped, defensive copy dropped, constant nudged).  For each mutant

  1. the edit is written into a private scratch worktree of /repo under /tmp,
  2. the repository's own suite runs there (pytest -x); a failing suite means the
     mutant is of no interest (the tests already settle it),
  3. otherwise every check mapped to the edited file runs against the worktree
     (SNT_SRC=<worktree>/src, one worker, wall cap, no evidence),
  4. the file is restored.

Results go to a JSONL file (one line per mutant).  Survivors (suite passes, no
check objects) are the interesting ones: each is either an equivalent change, a
change outside the claimed properties, or a blind spot of the machinery.

  mutants.py gen  <out.json> [--sample N --seed S]
  mutants.py run  <mutants.json> <results.jsonl> [--workers 8 --cap 45]
  mutants.py show <results.jsonl>
"""
import ast
import json
import os
import random
import subprocess
import sys
import time
from concurrent.futures import ProcessPoolExecutor, as_completed
import multiprocessing as mp

REPO = "/repo"
PKG = "src/scinumtools"

# file (relative to PKG) -> checks whose property the file can affect
TARGETS = {
    "solver/solver.py": ["C02", "C04", "C16"],
    "solver/tokens.py": ["C02", "C04", "C16"],
    "solver/atom.py": ["C02"],
    "solver/operators.py": ["C02", "C04", "C16"],
    "units/quantity.py": ["C04", "C07", "C14"],
    "units/magnitude.py": ["C04", "C07"],
    "units/base_units.py": ["C04", "C07", "C09"],
    "units/fraction.py": ["C04", "C07"],
    "units/dimensions.py": ["C04", "C07"],
    "units/unit_types.py": ["C04", "C07", "C09"],
    "units/unit_environment.py": ["C09", "C04"],
    "units/unit_solver.py": ["C04", "C09"],
    "units/unit.py": ["C04", "C07"],
    "units/unit_list.py": ["C04", "C09"],
    "dip/dip.py": ["C14", "C16", "C17", "C09"],
    "dip/environment.py": ["C14", "C16", "C17"],
    "dip/nodes/node_base.py": ["C14", "C16", "C17"],
    "dip/nodes/parser.py": ["C14", "C16", "C17"],
    "dip/nodes/node_float.py": ["C14", "C16", "C17"],
    "dip/nodes/node_integer.py": ["C14", "C16", "C17"],
    "dip/nodes/node_boolean.py": ["C14", "C16", "C17"],
    "dip/nodes/node_string.py": ["C14", "C16", "C17"],
    "dip/nodes/node_import.py": ["C17"],
    "dip/nodes/node_source.py": ["C17"],
    "dip/nodes/node_unit.py": ["C09", "C14", "C17"],
    "dip/nodes/node_option.py": ["C16"],
    "dip/nodes/node_constant.py": ["C14"],
    "dip/nodes/node_condition.py": ["C16"],
    "dip/nodes/node_format.py": ["C16"],
    "dip/nodes/node_mod.py": ["C14", "C16"],
    "dip/nodes/node_modification.py": ["C14", "C16"],
    "dip/datatypes/type_number.py": ["C14", "C16", "C17"],
    "dip/datatypes/type_float.py": ["C14", "C16", "C17"],
    "dip/datatypes/type_integer.py": ["C14", "C16", "C17"],
    "dip/datatypes/type_boolean.py": ["C14", "C16", "C17"],
    "dip/datatypes/type_string.py": ["C14", "C16", "C17"],
    "dip/lists/list_nodes.py": ["C14", "C17"],
    "dip/lists/list_units.py": ["C09", "C17"],
    "dip/lists/list_sources.py": ["C17"],
    "dip/solvers/logical_solver.py": ["C16"],
    "dip/solvers/numerical_solver.py": ["C17"],
    "parameter_table.py": ["C20"],
    "row_collector.py": ["C20"],
    "data_plot_grid.py": ["C20"],
    "data_combination.py": ["C20"],
}

CMP = {ast.Eq: "!=", ast.NotEq: "==", ast.Lt: "<=", ast.LtE: "<", ast.Gt: ">=", ast.GtE: ">",
       ast.Is: "is not", ast.IsNot: "is", ast.In: "not in", ast.NotIn: "in"}
CMP_SRC = {ast.Eq: "==", ast.NotEq: "!=", ast.Lt: "<", ast.LtE: "<=", ast.Gt: ">", ast.GtE: ">=",
           ast.Is: "is", ast.IsNot: "is not", ast.In: "in", ast.NotIn: "not in"}
BIN = {ast.Add: ("+", "-"), ast.Sub: ("-", "+"), ast.Mult: ("*", "/"), ast.Div: ("/", "*")}
UNWRAP_FUNCS = {"copy", "deepcopy", "list", "dict", "tuple"}


def _offsets(src):
    offs, n = [0], 0
    for line in src.splitlines(keepends=True):
        n += len(line.encode("utf-8"))
        offs.append(n)
    return offs


class Gen(ast.NodeVisitor):
    def __init__(self, rel, src):
        self.rel, self.src = rel, src
        self.b = src.encode("utf-8")
        self.offs = _offsets(src)
        self.out = []
        self.in_doc = False

    def span(self, node):
        return (self.offs[node.lineno - 1] + node.col_offset,
                self.offs[node.end_lineno - 1] + node.end_col_offset)

    def text(self, node):
        a, b = self.span(node)
        return self.b[a:b].decode("utf-8")

    def add(self, op, a, b, new, line):
        self.out.append({"file": self.rel, "op": op, "start": a, "end": b, "new": new, "line": line,
                         "old": self.b[a:b].decode("utf-8")})

    def between(self, left, right, old_tok, new_tok, op, line):
        a = self.span(left)[1]
        b = self.span(right)[0]
        seg = self.b[a:b].decode("utf-8")
        i = seg.find(old_tok)
        if i < 0:
            return
        j = len(seg[:i].encode("utf-8"))
        self.add(op, a + j, a + j + len(old_tok.encode("utf-8")), new_tok, line)

    def visit_Compare(self, node):
        left = node.left
        for o, right in zip(node.ops, node.comparators):
            t = type(o)
            if t in CMP:
                self.between(left, right, CMP_SRC[t], CMP[t], "cmp", node.lineno)
            left = right
        self.generic_visit(node)

    def visit_BinOp(self, node):
        t = type(node.op)
        if t in BIN and not (isinstance(node.left, ast.Constant) and isinstance(node.left.value, str)):
            old, new = BIN[t]
            self.between(node.left, node.right, old, new, "arith", node.lineno)
        self.generic_visit(node)

    def visit_BoolOp(self, node):
        old, new = ("and", "or") if isinstance(node.op, ast.And) else ("or", "and")
        for l, r in zip(node.values, node.values[1:]):
            self.between(l, r, old, new, "bool", node.lineno)
        self.generic_visit(node)

    def _negate(self, test, line):
        a, b = self.span(test)
        self.add("negate", a, b, "not (" + self.text(test) + ")", line)

    def visit_If(self, node):
        self._negate(node.test, node.lineno)
        self.generic_visit(node)

    def visit_While(self, node):
        self.generic_visit(node)

    def visit_IfExp(self, node):
        self._negate(node.test, node.lineno)
        self.generic_visit(node)

    def _drop(self, node):
        if node.lineno != node.end_lineno:
            # multi-line statement: replace by pass plus blank continuation
            pass
        a, b = self.span(node)
        self.add("drop", a, b, "pass", node.lineno)

    def visit_Expr(self, node):
        if isinstance(node.value, ast.Constant):      # docstring
            return
        self._drop(node)
        self.generic_visit(node)

    def visit_Assign(self, node):
        # dropping a first binding of a local only gives NameError noise; keep attribute /
        # subscript targets and rebinding of names
        tgt = node.targets[0]
        if isinstance(tgt, (ast.Attribute, ast.Subscript)):
            self._drop(node)
        self.generic_visit(node)

    def visit_AugAssign(self, node):
        self._drop(node)
        self.generic_visit(node)

    def visit_Delete(self, node):
        self._drop(node)

    def visit_Call(self, node):
        f = node.func
        name = f.attr if isinstance(f, ast.Attribute) else getattr(f, "id", None)
        if name in UNWRAP_FUNCS and len(node.args) == 1 and not node.keywords:
            a, b = self.span(node)
            self.add("unwrap", a, b, self.text(node.args[0]), node.lineno)
        elif name == "copy" and isinstance(f, ast.Attribute) and not node.args:
            a, b = self.span(node)
            self.add("unwrap", a, b, self.text(f.value), node.lineno)
        self.generic_visit(node)

    def visit_Constant(self, node):
        v = node.value
        a, b = self.span(node)
        if v is True:
            self.add("const", a, b, "False", node.lineno)
        elif v is False:
            self.add("const", a, b, "True", node.lineno)
        elif isinstance(v, int) and not isinstance(v, bool) and abs(v) <= 10:
            self.add("const", a, b, str(v + 1), node.lineno)

    def visit_Return(self, node):
        if node.value is not None and not isinstance(node.value, ast.Constant):
            a, b = self.span(node.value)
            if isinstance(node.value, (ast.Name, ast.Attribute)) is False:
                pass
        self.generic_visit(node)

    def visit_Raise(self, node):
        # errors that are not raised: the statement becomes a no-op
        self._drop(node)


def generate():
    out = []
    for rel in sorted(TARGETS):
        path = os.path.join(REPO, PKG, rel)
        if not os.path.exists(path):
            continue
        src = open(path, encoding="utf-8").read()
        g = Gen(rel, src)
        g.visit(ast.parse(src))
        for m in g.out:
            new_src = apply(src, m)
            try:
                compile(new_src, rel, "exec")
            except SyntaxError:
                continue
            out.append(m)
    for i, m in enumerate(out):
        m["id"] = i
    return out


def apply(src, m):
    b = src.encode("utf-8")
    return (b[:m["start"]] + m["new"].encode("utf-8") + b[m["end"]:]).decode("utf-8")


# ---------------------------------------------------------------------------------------
def _worktree(w):
    wt = f"/tmp/mutwt_{w}"
    if not os.path.isdir(wt):
        subprocess.run(["git", "-C", REPO, "worktree", "remove", "--force", wt],
                       stdout=subprocess.DEVNULL, stderr=subprocess.DEVNULL)
        subprocess.run(["git", "-C", REPO, "worktree", "add", "-q", "--detach", wt, "HEAD"], check=True)
    return wt


def run_one(m, cap):
    w = mp.current_process()._identity[0] if mp.current_process()._identity else 0
    wt = _worktree(w)
    path = os.path.join(wt, PKG, m["file"])
    orig = open(os.path.join(REPO, PKG, m["file"]), encoding="utf-8").read()
    res = dict(m)
    t0 = time.time()
    env = dict(os.environ, PYTHONDONTWRITEBYTECODE="1", PYTHONHASHSEED="0")
    try:
        with open(path, "w", encoding="utf-8") as f:
            f.write(apply(orig, m))
        try:
            p = subprocess.run(["/venv/bin/python", "-B", "-m", "pytest", "-q", "-x", "-p", "no:cacheprovider",
                                "--timeout=120"], cwd=wt, env=env, capture_output=True, text=True, timeout=600)
            tail = (p.stdout.strip().splitlines() or [""])[-1]
            res["suite"] = "pass" if p.returncode == 0 else "fail"
            res["suite_tail"] = tail[:120]
        except subprocess.TimeoutExpired:
            res["suite"] = "timeout"
        res["checks"] = {}
        if res["suite"] == "pass":
            for prop in TARGETS[m["file"]]:
                try:
                    p = subprocess.run(["./check", prop, "--tier", "quick", "--no-selftest", "--no-evidence",
                                        "--workers", "1", "--cap", str(cap)],
                                       cwd="/verif", env=dict(env, SNT_SRC=os.path.join(wt, "src")),
                                       capture_output=True, text=True, timeout=cap * 6 + 300)
                    viol = [l for l in p.stdout.splitlines() if l.startswith("violation")]
                    harness = "HARNESS" in p.stdout or "HARNESS" in p.stderr
                    res["checks"][prop] = {"rc": p.returncode, "n": p.stdout.count("\nVIOLATION"),
                                           "first": (viol[0][:300] if viol else ""),
                                           "harness": harness,
                                           "err": p.stderr[-300:] if p.returncode not in (0, 1) else ""}
                except subprocess.TimeoutExpired:
                    res["checks"][prop] = {"rc": "timeout", "n": 0, "first": "", "harness": False, "err": ""}
    finally:
        with open(path, "w", encoding="utf-8") as f:
            f.write(orig)
    res["wall"] = round(time.time() - t0, 1)
    return res


def main():
    cmd = sys.argv[1]
    if cmd == "gen":
        out = generate()
        args = sys.argv[3:]
        if "--sample" in args:
            n = int(args[args.index("--sample") + 1])
            s = int(args[args.index("--seed") + 1]) if "--seed" in args else 1
            rng = random.Random(s)
            out = sorted(rng.sample(out, min(n, len(out))), key=lambda m: m["id"])
        json.dump(out, open(sys.argv[2], "w"), indent=0)
        by = {}
        for m in out:
            by[m["op"]] = by.get(m["op"], 0) + 1
        print(len(out), "mutants", by)
    elif cmd == "run":
        muts = json.load(open(sys.argv[2]))
        args = sys.argv[4:]
        workers = int(args[args.index("--workers") + 1]) if "--workers" in args else 8
        cap = int(args[args.index("--cap") + 1]) if "--cap" in args else 45
        done = set()
        if os.path.exists(sys.argv[3]):
            for l in open(sys.argv[3]):
                done.add(json.loads(l)["id"])
        todo = [m for m in muts if m["id"] not in done]
        print(len(todo), "to run", flush=True)
        with ProcessPoolExecutor(workers, mp_context=mp.get_context("fork")) as ex, \
                open(sys.argv[3], "a") as out:
            futs = [ex.submit(run_one, m, cap) for m in todo]
            for k, f in enumerate(as_completed(futs)):
                r = f.result()
                out.write(json.dumps(r) + "\n")
                out.flush()
                if k % 20 == 0:
                    print(k, "done", flush=True)
        for w in range(0, workers + 2):
            wt = f"/tmp/mutwt_{w}"
            if os.path.isdir(wt):
                subprocess.run(["git", "-C", REPO, "worktree", "remove", "--force", wt])
                subprocess.run(["rm", "-rf", wt])
    elif cmd == "show":
        rs = [json.loads(l) for l in open(sys.argv[2])]
        tot = len(rs)
        suite_fail = [r for r in rs if r["suite"] != "pass"]
        alive = [r for r in rs if r["suite"] == "pass"]
        caught = [r for r in alive if any(c["rc"] == 1 for c in r["checks"].values())]
        broken = [r for r in alive if any(c["rc"] not in (0, 1) or c["harness"] for c in r["checks"].values())]
        surv = [r for r in alive if r not in caught and r not in broken]
        print(f"total={tot} suite_kills={len(suite_fail)} suite_pass={len(alive)} "
              f"caught_by_checks={len(caught)} harness_or_error={len(broken)} survivors={len(surv)}")
        if "--survivors" in sys.argv:
            for r in surv:
                print(f"#{r['id']} {r['file']}:{r['line']} [{r['op']}] {r['old']!r} -> {r['new']!r}")
        if "--broken" in sys.argv:
            for r in broken:
                print(f"#{r['id']} {r['file']}:{r['line']} [{r['op']}] {r['old']!r} -> {r['new']!r}",
                      {k: (c['rc'], c['err'][-150:]) for k, c in r['checks'].items()})
        if "--caught" in sys.argv:
            for r in caught:
                print(f"#{r['id']} {r['file']}:{r['line']} [{r['op']}] {r['old']!r} -> {r['new']!r}",
                      [k for k, c in r['checks'].items() if c['rc'] == 1])


if __name__ == "__main__":
    main()
